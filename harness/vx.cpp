// vx -- checks decided by the vmpi engine (virtual MPI / OpenMP under a controlled scheduler): C16, C06
#include "../engines/vmpi/explore.hpp"
#include "../engines/harness.hpp"
#include "vx_checks.hpp"

using namespace mx;
std::map<std::string, VxFn>& vx_registry() { static std::map<std::string, VxFn> r; return r; }

int main(int argc, char** argv) {
    Args a = Args::parse(argc, argv);
    if (a.check == "replay") {   // vx replay <file.json>
        return vx_replay(a.rest.empty() ? std::string() : a.rest[0]);
    }
    auto it = vx_registry().find(a.check);
    if (it == vx_registry().end()) { fprintf(stderr, "unknown vmpi check %s\n", a.check.c_str()); return 2; }
    Recorder rec; rec.check = a.check; Clock clk; int rc = 0;
    try { rc = it->second(a, rec); } catch (std::exception& e) { fprintf(stderr, "ENGINE-ERROR %s\n", e.what()); rc = 2; }
    if (!a.out.empty()) rec.write(a.out, clk.s());
    fprintf(stdout, "check=%s shard=%d/%d states=%ld transitions=%ld executions=%ld violations=%zu wall=%.1fs\n", a.check.c_str(), a.shard, a.nshards, rec.states, rec.transitions, rec.evaluations, rec.viol.size(), clk.s());
    if (rc == 2) return 2;
    return rec.viol.empty() ? 0 : 1;
}
