// C16 -- the job dispatcher runs every job exactly once and always terminates.  All interleavings (state-hashed) of the real
// MPIMaster / MPIWorker / mpi_skel over the virtual MPI.
#include "vx_checks.hpp"
#include <mpi_dispatcher/mpi_skel.hpp>
using namespace mx;

namespace {
struct Exec { int round, job, rank; };
struct Shared { std::vector<Exec> log; std::map<int, std::map<int, std::map<int,int> > > maps; /* rank -> round -> job -> worker */ std::map<int,int> rounds_done; } *SH = 0;

// "ids" mode of the dedicated-master harness: the job list is given explicitly and is neither contiguous nor ascending (external id of job j
// is 3*(J-1-j)+2); everything the oracle sees is decoded back to j, an id outside the list decodes to a negative number
int g_ids = 0, g_J = 0;
int ext_id(int j) { return g_ids ? 3 * (g_J - 1 - j) + 2 : j; }
int dec_id(int id) { if (!g_ids) return id; if (id < 2 || (id - 2) % 3 != 0 || (id - 2) / 3 >= g_J) return -1000 - id; return g_J - 1 - (id - 2) / 3; }
struct Job { int id, complexity, round; void run() { vmpi::yield_point("job", id); Exec e = { round, dec_id(id), vmpi::my_rank() }; SH->log.push_back(e); vmpi::note(0x6a6f62ull * 1000 + round * 100 + id); } };

std::string check_rounds(int P, int J, int R, bool need_maps, std::string& sig) {
    std::ostringstream s;
    for (int r = 0; r < R; ++r) {
        std::map<int,int> ran; std::map<int,int> cnt;
        for (auto& e : SH->log) if (e.round == r) { cnt[e.job]++; ran[e.job] = e.rank; }
        for (int j = 0; j < J; ++j) { if (cnt[j] == 0) return "round " + std::to_string(r) + ": job " + std::to_string(j) + " was never executed"; if (cnt[j] > 1) return "round " + std::to_string(r) + ": job " + std::to_string(j) + " was executed " + std::to_string(cnt[j]) + " times"; }
        for (auto& kv : cnt) if (kv.first < 0 || kv.first >= J) return "round " + std::to_string(r) + ": a job id " + std::to_string(kv.first) + " outside the job list was executed";
        s << "r" << r << ":"; for (int j = 0; j < J; ++j) s << ran[j]; s << " ";
        if (need_maps) for (int p = 0; p < P; ++p) {
            if (!SH->maps[p].count(r)) return "rank " + std::to_string(p) + " has no dispatch map for round " + std::to_string(r);
            const std::map<int,int>& m = SH->maps[p][r];
            if ((int)m.size() != J) return "round " + std::to_string(r) + ": the map returned on rank " + std::to_string(p) + " has " + std::to_string(m.size()) + " entries for " + std::to_string(J) + " jobs";
            for (int j = 0; j < J; ++j) { auto it = m.find(j); if (it == m.end()) return "round " + std::to_string(r) + ": job " + std::to_string(j) + " missing in the map of rank " + std::to_string(p); if (it->second != ran[j]) return "round " + std::to_string(r) + ": map on rank " + std::to_string(p) + " says job " + std::to_string(j) + " ran on " + std::to_string(it->second) + " but it ran on " + std::to_string(ran[j]); }
        }
    }
    sig = s.str(); return "";
}

// (A) mpi_skel<Job>::run called R times in a row on the same communicator (the boss works too)
VxHarness make_skel(const VxConfig& c) {
    int P = c.p.at("P"), J = c.p.at("J"), R = c.p.at("R"), distinct = c.p.at("cx");
    VxHarness h; h.mpi.P = P; h.mpi.rendezvous = c.p.at("rdv"); h.mpi.delayed = c.p.count("delay") && c.p.at("delay");
    h.reset = []() { static Shared s; s = Shared(); SH = &s; g_ids = 0; g_J = 0; };
    h.body = [=](int rank) {
        boost::mpi::communicator comm;
        for (int r = 0; r < R; ++r) {
            pMPI::mpi_skel<Job> skel; skel.parts.resize(J); for (int j = 0; j < J; ++j) { skel.parts[j].id = j; skel.parts[j].round = r; skel.parts[j].complexity = distinct == 2 ? ((j % 2 == 0) ? 0 : j) : (distinct ? (j * 7 + 3) % 5 + j : 1); }      // cx=2: some jobs have complexity 0 ("any job complexities")
            std::map<pMPI::JobId, pMPI::WorkerId> m = skel.run(comm, false);
            SH->maps[rank][r] = std::map<int,int>(m.begin(), m.end()); SH->rounds_done[rank] = r + 1;
        }
    };
    h.oracle = [=](const vmpi::Outcome& o, std::string& sig) -> std::string {
        for (int p = 0; p < P; ++p) if (SH->rounds_done[p] != R) return "rank " + std::to_string(p) + " returned from " + std::to_string(SH->rounds_done[p]) + " of " + std::to_string(R) + " rounds";
        if (o.leftover_messages) return std::to_string(o.leftover_messages) + " message(s) were never received";
        return check_rounds(P, J, R, true, sig);
    };
    return h;
}
// (B) the dedicated-master loop of test/mpi_dispatcher_test_nomaster.cpp, R rounds separated by a barrier
VxHarness make_nomaster(const VxConfig& c) {
    int P = c.p.at("P"), J = c.p.at("J"), R = c.p.at("R");
    VxHarness h; h.mpi.P = P; h.mpi.rendezvous = c.p.at("rdv"); h.mpi.delayed = c.p.count("delay") && c.p.at("delay");
    int ids = c.p.count("ids") ? (int)c.p.at("ids") : 0;
    h.reset = [=]() { static Shared s; s = Shared(); SH = &s; g_ids = ids; g_J = J; };
    h.body = [=](int rank) {
        boost::mpi::communicator world; int ROOT = 0;
        for (int r = 0; r < R; ++r) {
            if (rank == ROOT) {
                std::vector<pMPI::JobId> jl; for (int j = 0; j < J; ++j) jl.push_back(ext_id(j)); std::vector<pMPI::WorkerId> pool; for (int p = 1; p < P; ++p) pool.push_back(p);
                std::unique_ptr<pMPI::MPIMaster> mp(ids == 0 ? new pMPI::MPIMaster(world, (size_t)J, false) : ids == 1 ? new pMPI::MPIMaster(world, jl, false) : new pMPI::MPIMaster(world, pool, jl));
                pMPI::MPIMaster& master = *mp; for (; !master.is_finished();) { master.order(); master.check_workers(); }
                std::map<int,int> m; for (auto& kv : master.DispatchMap) m[dec_id(kv.first)] = kv.second; SH->maps[0][r] = m; if (m.size() != master.DispatchMap.size()) SH->maps[0][r][-1] = -1; }
            else { pMPI::MPIWorker worker(world, ROOT); for (; !worker.is_finished();) { worker.receive_order(); if (worker.is_working()) { Job jb; jb.id = worker.current_job(); jb.round = r; jb.complexity = 1; jb.run(); worker.report_job_done(); } } }
            world.barrier(); SH->rounds_done[rank] = r + 1;
        }
    };
    h.oracle = [=](const vmpi::Outcome& o, std::string& sig) -> std::string {
        for (int p = 0; p < P; ++p) if (SH->rounds_done[p] != R) return "rank " + std::to_string(p) + " returned from " + std::to_string(SH->rounds_done[p]) + " of " + std::to_string(R) + " rounds";
        if (o.leftover_messages) return std::to_string(o.leftover_messages) + " message(s) were never received";
        std::string e = check_rounds(P, J, R, false, sig); if (!e.empty()) return e;
        for (int r = 0; r < R; ++r) { const std::map<int,int>& m = SH->maps[0][r]; if ((int)m.size() != J) return "master's DispatchMap has " + std::to_string(m.size()) + " entries for " + std::to_string(J) + " jobs";
            for (auto& ex : SH->log) if (ex.round == r) { auto it = m.find(ex.job); if (it == m.end() || it->second != ex.rank) return "DispatchMap names a rank that did not run job " + std::to_string(ex.job); if (ex.rank == 0) return "the dedicated master ran a job"; } }
        return "";
    };
    return h;
}
static VxFacReg f1("skel", make_skel); static VxFacReg f2("nomaster", make_nomaster);

int run_c16(const Args& a, Recorder& rec) {
    Clock clk; bool T = a.thorough(); int Jmax = T ? 4 : 3, Pmax = T ? 4 : 3; long idx = 0; long multi_outcome_configs = 0, should_vary = 0;
    std::vector<VxConfig> cfgs;
    for (int P = 1; P <= Pmax; ++P) for (int J = 0; J <= Jmax; ++J) for (int R = 1; R <= ((P <= 2) ? 3 : 2); ++R) for (int rdv = 0; rdv < 2; ++rdv) {
        if (R == 3 && !T && J > 2) continue;
        for (int cx = 0; cx < 3; ++cx) { if (cx == 1 && J < 2) continue; if (cx == 2 && (J < 1 || R > 2 || (rdv && !T))) continue; VxConfig c; c.harness = "skel"; c.p["P"] = P; c.p["J"] = J; c.p["R"] = R; c.p["rdv"] = rdv; c.p["cx"] = cx; cfgs.push_back(c); }
        if (P >= 2) { VxConfig c; c.harness = "nomaster"; c.p["P"] = P; c.p["J"] = J; c.p["R"] = R; c.p["rdv"] = rdv; cfgs.push_back(c);
            // the other two constructors: explicit (non-contiguous, descending) job id list; explicit worker pool + job id list
            if (J >= 1 && R == 1 && (!rdv || T)) for (int ids = 1; ids <= 2; ++ids) { VxConfig d = c; d.p["ids"] = ids; cfgs.push_back(d); } }
    }
    // cheapest first, so that a deadline cuts the tail
    std::stable_sort(cfgs.begin(), cfgs.end(), [](const VxConfig& x, const VxConfig& y) { long a1 = x.p.at("P") * 10 + x.p.at("J") * 3 + x.p.at("R") * 5, a2 = y.p.at("P") * 10 + y.p.at("J") * 3 + y.p.at("R") * 5; return a1 < a2; });
    for (auto& c : cfgs) {
        if ((idx++ % a.nshards) != a.shard) continue; if (!a.want(c.str())) continue;
        if (clk.s() > a.deadline) { rec.exhaustive = false; rec.note("deadline before " + c.str()); continue; }
        vmpi::ExploreResult R = vx_explore(a, rec, c, -1, std::max(10.0, a.deadline - clk.s()), T ? 3000000 : 400000, "C16");
        long distinct = 0; for (auto& kv : R.outcomes) if (kv.first.empty() || kv.first[0] != '!') { distinct++; if (!a.out.empty()) { FILE* f = fopen((a.out + ".outcomes").c_str(), "a"); if (f) { fprintf(f, "%s\t%s\n", c.str().c_str(), kv.first.c_str()); fclose(f); } } }
        rec.counters["configurations"]++; rec.counters["distinct_outcomes"] += distinct; if (distinct > 1) { multi_outcome_configs++; rec.nontrivial += distinct; }
        long nworkers = (c.harness == "skel") ? c.p.at("P") : c.p.at("P") - 1; bool vary = nworkers >= 2 && c.p.at("J") > nworkers;      // more jobs than workers: who gets the later jobs depends on timing if (vary) { should_vary++; if (distinct <= 1 && R.found.empty() && R.exhaustive) throw std::runtime_error("vacuous exploration: " + c.str() + " produced a single job->rank assignment in " + std::to_string(R.executions) + " executions"); }
        std::ostringstream s; s << c.str() << " : executions=" << R.executions << " states=" << R.states << " transitions=" << R.transitions << " outcomes=" << distinct << " longest=" << R.max_points << (R.exhaustive ? "" : " (NOT exhausted)"); if (idx % 7 == 0 || !R.found.empty()) rec.sample(s.str(), 12);
        rec.enum_states += R.states; rec.enum_transitions += 0;
        // explicit message delay: every message needs a separate 'deliver' step.  For this star-shaped protocol instant delivery + all
        // interleavings is argued to cover all delivery timings (DESIGN 6.1); here the argument is CHECKED on the smaller configurations:
        // the delayed exploration must terminate without violation and reproduce every outcome of instant delivery.
        bool small = c.p.at("P") <= (T ? 3 : 2) + (c.harness == "nomaster" ? 1 : 0) && c.p.at("J") <= 3 && c.p.at("R") <= 2 && (c.p.at("P") < 3 || c.p.at("J") <= 2 || T);
        if (small && R.found.empty() && R.exhaustive && clk.s() < a.deadline) {
            VxConfig cd_ = c; cd_.p["delay"] = 1; vmpi::ExploreResult D = vx_explore(a, rec, cd_, -1, std::max(10.0, a.deadline - clk.s()), T ? 3000000 : 400000, "C16");
            rec.counters["delayed_delivery_configurations"]++;
            if (D.found.empty() && D.exhaustive) { std::set<std::string> o1, o2; for (auto& kv : R.outcomes) o1.insert(kv.first); for (auto& kv : D.outcomes) o2.insert(kv.first);
                // instant delivery is a restriction of delayed delivery: everything it produces must be reproduced (anything else is an engine fault);
                // the delayed mode may legitimately reach more outcomes (it does not on the pinned tree; it does for a dispatcher that polls its
                // workers in another order) -- those are added to the explored outcome set of the configuration
                for (auto& o : o1) if (!o2.count(o)) throw std::runtime_error("delivery-model mismatch: outcome '" + o + "' of instant delivery is not reproduced with delayed delivery for " + c.str());
                if (o2.size() > o1.size()) { rec.counters["delayed_delivery_found_more_outcomes"]++; rec.note("delayed delivery reaches " + std::to_string(o2.size() - o1.size()) + " more outcome(s) than instant delivery for " + c.str()); }
                if (!a.out.empty()) { FILE* f = fopen((a.out + ".outcomes").c_str(), "a"); if (f) { for (auto& o : o2) if (!o1.count(o) && (o.empty() || o[0] != '!')) fprintf(f, "%s\t%s\n", c.str().c_str(), o.c_str()); fprintf(f, "%s\t#delayed-explored\n", c.str().c_str()); fclose(f); } }
                rec.counters["delayed_delivery_outcome_sets_equal"] += (o2.size() == o1.size()); if (rec.counters["delayed_delivery_outcome_sets_equal"] % 9 == 1) rec.sample(cd_.str() + " : executions=" + std::to_string(D.executions) + " states=" + std::to_string(D.states) + " same " + std::to_string(o2.size()) + " outcome(s) as instant delivery", 14); }
        }
    }
    rec.bound = "all interleavings (no deviation bound), P<=" + std::to_string(Pmax) + ", J<=" + std::to_string(Jmax) + ", R<=3 (P<=2) / 2, eager and rendezvous sends, equal and distinct complexities; harnesses mpi_skel::run and dedicated-master loop";
    return 0;
}
} // namespace
REGISTER_VX("C16", run_c16);
