// C20 -- lattice input is validated and looked up faithfully.  histx: BFS over addSite/addTerm/preset call histories on a real
// Lattice against a plain map/list reference model.   DESIGN.md section 7 / C20
#include "checks.hpp"
#include <sys/wait.h>
using namespace mx;

namespace {

struct RSite { int orb, spin; };
typedef std::map<std::string, RSite> RSites;

struct LOp { bool is_site; SiteSpec site; Gen g; int query; /* 0 none; 1 getTerms(n) 2 getMaxTermOrder 3 printTerms(n) 4 getSiteMap walk */ int qarg; LOp() : is_site(false), query(0), qarg(0) {}
    std::string repr() const { if (query == 1) return "getTerms(" + std::to_string(qarg) + ")"; if (query == 2) return "getMaxTermOrder()"; if (query == 3) return "printTerms(" + std::to_string(qarg) + ")"; if (query == 4) return "printSites()"; return is_site ? "addSite(" + site.label + "," + std::to_string(site.orb) + "," + std::to_string(site.spin) + ")" : g.repr(); } };

std::string term_str(const Lattice::Term& T) {
    std::ostringstream o; o.precision(12); o << cd(T.Value).real() << "," << cd(T.Value).imag() << "*";
    for (unsigned i = 0; i < T.getOrder(); ++i) o << (T.OperatorSequence[i] ? "c+" : "c") << "[" << T.SiteLabels[i] << "," << T.Orbitals[i] << "," << T.Spins[i] << "]";
    return o.str();
}
std::vector<std::string> dump_terms(const Lattice& L, unsigned order) { std::vector<std::string> v; const Lattice::TermList& tl = L.getTermStorage().getTerms(order); for (auto it = tl.begin(); it != tl.end(); ++it) v.push_back(term_str(**it)); return v; }
// abstraction of a lattice = canonical key of the BFS.  It must not disturb the object, so it reads the private containers
// directly (harness TUs are compiled with -fno-access-control) and never goes through the public lookups.
std::string dump(const Lattice& L) {
    std::string s = "sites:";
    for (auto it = L.Sites.begin(); it != L.Sites.end(); ++it) s += it->first + "=" + std::to_string(it->second->OrbitalSize) + "x" + std::to_string(it->second->SpinSize) + ";";
    s += "|terms:"; std::vector<std::string> all;
    for (auto& kv : L.Terms->Terms) for (auto it = kv.second.begin(); it != kv.second.end(); ++it) all.push_back(std::to_string(kv.first) + ":" + term_str(**it));
    std::sort(all.begin(), all.end()); for (auto& t : all) s += t + ";";
    // hidden bookkeeping that later calls depend on (queries are transitions of the history too: they may have side effects)
    s += "|orders:"; for (auto& kv : L.Terms->Terms) s += std::to_string(kv.first) + ","; s += "|max:" + std::to_string(L.Terms->MaxTermOrder);
    return s;
}
std::string dump_nonzero(const Lattice& L) {
    std::vector<std::string> all;
    for (auto& kv : L.Terms->Terms) for (auto it = kv.second.begin(); it != kv.second.end(); ++it) if (std::abs(cd((*it)->Value)) != 0) all.push_back(term_str(**it));
    std::sort(all.begin(), all.end()); std::string s; for (auto& t : all) s += t + ";"; return s;
}
// reference: is the call defined on these sites?  (Lattice.h / LatticePresets.h; size-match rules as the presets' own messages state them)
bool ref_valid(const Gen& g, const RSites& S) {
    auto has = [&](const std::string& l) { return S.count(l) > 0; };
    switch (g.kind) {
    case LEVEL: case COULOMB_S: return has(g.l1);
    case MAGN: return has(g.l1) && S.at(g.l1).spin == 2;
    case COULOMB_P3: case COULOMB_P4: return has(g.l1) && S.at(g.l1).orb > 1 && S.at(g.l1).spin > 1;
    case SZSZ: case SS: return has(g.l1) && has(g.l2) && S.at(g.l1).orb == S.at(g.l2).orb && S.at(g.l1).spin == S.at(g.l2).spin && S.at(g.l1).spin == 2;
    case HOP_ALL: return has(g.l1) && has(g.l2) && S.at(g.l1).orb == S.at(g.l2).orb && S.at(g.l1).spin == S.at(g.l2).spin;
    case HOP_OO: return has(g.l1) && has(g.l2) && g.o1 < S.at(g.l1).orb && g.o2 < S.at(g.l2).orb && S.at(g.l1).spin == S.at(g.l2).spin;
    case HOP_OOS: return has(g.l1) && has(g.l2) && g.o1 < S.at(g.l1).orb && g.o2 < S.at(g.l2).orb && g.s1 < S.at(g.l1).spin && g.s1 < S.at(g.l2).spin;
    case HOP_OOSS: return has(g.l1) && has(g.l2) && g.o1 < S.at(g.l1).orb && g.o2 < S.at(g.l2).orb && g.s1 < S.at(g.l1).spin && g.s2 < S.at(g.l2).spin;
    case RAW: for (auto& r : g.raw) { if (!has(r.label)) return false; if (r.orb >= S.at(r.label).orb || r.spin >= S.at(r.label).spin) return false; } return true;
    }
    return false;
}
bool zero_params(const Gen& g) { for (int k = 0; k < 4; ++k) if (g.v[k] != cd(0)) return false; return true; }

std::vector<LOp> make_alphabet(bool thorough) {
    std::vector<LOp> A;
    auto site = [&](const char* l, int o, int s) { LOp x; x.is_site = true; x.site.label = l; x.site.orb = o; x.site.spin = s; A.push_back(x); };
    site("A", 1, 2); site("B", 1, 2); site("B", 1, 1); site("B", 2, 2); site("a", 1, 2); if (thorough) { site("A", 2, 2); site("a", 1, 3); }
    auto gen = [&](Gen g) { LOp x; x.is_site = false; x.g = g; A.push_back(x); };
    for (int n : { 2, 4 }) { LOp q; q.query = 1; q.qarg = n; A.push_back(q); } { LOp q; q.query = 2; A.push_back(q); } { LOp q; q.query = 3; q.qarg = 4; A.push_back(q); } { LOp q; q.query = 4; A.push_back(q); }
    auto raw2 = [&](const char* l1, int o1, int s1, const char* l2, int o2, int s2, double v) { Gen g; g.kind = RAW; g.v[0] = v; RawOp a = { true, l1, (unsigned short)o1, (unsigned short)s1 }, b = { false, l2, (unsigned short)o2, (unsigned short)s2 }; g.raw = { a, b }; gen(g); };
    raw2("A", 0, 0, "B", 0, 0, 1.5);       // valid when A,B exist
    raw2("A", 0, 1, "A", 0, 0, -1.0);      // valid spin flip on A
    raw2("A", 0, 0, "zz", 0, 0, 1.0);      // unknown label (second operator)
    raw2("zz", 0, 0, "A", 0, 0, 1.0);      // unknown label (first operator)
    raw2("A", 1, 0, "A", 0, 0, 1.0);       // orbital out of range on a 1-orbital A
    raw2("A", 0, 0, "B", 0, 1, 1.0);       // spin out of range when B has one spin
    raw2("A", 0, 2, "A", 0, 0, 1.0);       // spin out of range
    raw2("A", 0, 0, "B", 0, 0, 0.0);       // zero amplitude, valid indices
    raw2("A", 0, 0, "zz", 0, 0, 0.0);      // zero amplitude, invalid indices
    { Gen g; g.kind = RAW; g.v[0] = 2.0; RawOp a = { true, "B", 1, 1 }, b = { false, "B", 1, 1 }, c = { true, "B", 0, 0 }, d = { false, "B", 0, 0 }; g.raw = { a, b, c, d }; gen(g); }   // 4-operator term, valid only on B(2,2)
    for (const char* l : { "A", "B", "zz" }) {
        for (double v : { 1.0, 0.0 }) { Gen g; g.kind = LEVEL; g.l1 = l; g.v[0] = v; gen(g); }
        { Gen g; g.kind = MAGN; g.l1 = l; g.v[0] = 0.5; gen(g); }
        { Gen g; g.kind = COULOMB_S; g.l1 = l; g.v[0] = 2; g.v[1] = -1; gen(g); }
        { Gen g; g.kind = COULOMB_P3; g.l1 = l; g.v[0] = 2; g.v[1] = 0.5; g.v[2] = -1; gen(g); }
    }
    { Gen g; g.kind = MAGN; g.l1 = "A"; g.v[0] = 0; gen(g); }
    { Gen g; g.kind = COULOMB_S; g.l1 = "A"; g.v[0] = 0; g.v[1] = 0; gen(g); }
    { Gen g; g.kind = COULOMB_P3; g.l1 = "B"; g.v[0] = 0; g.v[1] = 0; g.v[2] = 0; gen(g); }
    const char* pairs[][2] = { { "A", "B" }, { "B", "A" }, { "A", "A" }, { "A", "zz" }, { "zz", "A" }, { "B", "a" } };
    for (auto& pr : pairs) {
        { Gen g; g.kind = HOP_ALL; g.l1 = pr[0]; g.l2 = pr[1]; g.v[0] = -1; gen(g); }
        { Gen g; g.kind = HOP_OO; g.l1 = pr[0]; g.l2 = pr[1]; g.v[0] = -1; g.o1 = 0; g.o2 = 0; gen(g); }
        { Gen g; g.kind = SZSZ; g.l1 = pr[0]; g.l2 = pr[1]; g.v[0] = 1; gen(g); }
        { Gen g; g.kind = SS; g.l1 = pr[0]; g.l2 = pr[1]; g.v[0] = 1; gen(g); }
    }
    { Gen g; g.kind = HOP_OO; g.l1 = "A"; g.l2 = "B"; g.v[0] = 1; g.o1 = 0; g.o2 = 1; gen(g); }
    { Gen g; g.kind = HOP_OOS; g.l1 = "A"; g.l2 = "B"; g.v[0] = 1; g.o1 = 0; g.o2 = 0; g.s1 = 1; gen(g); }
    { Gen g; g.kind = HOP_OOSS; g.l1 = "A"; g.l2 = "B"; g.v[0] = 1; g.o1 = 0; g.o2 = 0; g.s1 = 1; g.s2 = 0; gen(g); }
    { Gen g; g.kind = HOP_OOSS; g.l1 = "A"; g.l2 = "B"; g.v[0] = 1; g.o1 = 0; g.o2 = 0; g.s1 = 0; g.s2 = 1; gen(g); }
    { Gen g; g.kind = HOP_OOSS; g.l1 = "A"; g.l2 = "B"; g.v[0] = 0; g.o1 = 0; g.o2 = 0; g.s1 = 0; g.s2 = 0; gen(g); }
    { Gen g; g.kind = SZSZ; g.l1 = "A"; g.l2 = "B"; g.v[0] = 0; gen(g); }
    return A;
}

// run fn in a forked child: 0 = returned normally with code, else crash
int isolated(const std::function<int()>& fn) {
    fflush(0); pid_t p = fork();
    if (p == 0) { int r = 90; try { r = fn(); } catch (...) { r = 91; } _exit(r); }
    int st = 0; waitpid(p, &st, 0); if (WIFEXITED(st)) return WEXITSTATUS(st); return 200 + (WIFSIGNALED(st) ? WTERMSIG(st) : 0);
}

struct RState { RSites sites; std::vector<std::string> rawterms; };   // reference model (raw user terms only; preset terms are C04's subject)

void replay(Lattice& L, RState& R, const std::vector<LOp>& A, const std::vector<int>& h) {
    for (int k : h) { const LOp& op = A[k];
        if (op.query) { if (op.query == 1) { volatile size_t n = L.getTermStorage().getTerms(op.qarg).size(); (void)n; } else if (op.query == 2) { volatile unsigned n = L.getTermStorage().getMaxTermOrder(); (void)n; } else if (op.query == 3) L.printTerms(op.qarg); else L.printSites(); continue; }
        if (op.is_site) { L.addSite(new Lattice::Site(op.site.label, op.site.orb, op.site.spin)); RSite s = { op.site.orb, op.site.spin }; R.sites[op.site.label] = s; }
        else { apply_lib(L, op.g); } }
}

bool all_terms_valid(const Lattice& L, const RSites& S, std::string& bad) {
    for (auto& kv : L.Terms->Terms) { const Lattice::TermList& tl = kv.second;
        for (auto it = tl.begin(); it != tl.end(); ++it) { const Lattice::Term& T = **it;
            for (unsigned i = 0; i < T.getOrder(); ++i) { auto f = S.find(T.SiteLabels[i]); if (f == S.end() || T.Orbitals[i] >= f->second.orb || T.Spins[i] >= f->second.spin) { bad = term_str(T); return false; } } } }
    return true;
}


// ---- exhaustive enumeration of raw addTerm arguments: every term of order 2, 3 and 4 whose operators are drawn from
//      {A, B, zz} x orbital {0,1,2} x spin {0,1,2} on the lattice A(1 orbital, 2 spins), B(2 orbitals, 1 spin) -- every position of
//      an invalid index, every pattern of repeated labels -- with a non-zero and a zero amplitude.  Oracle: rejected with exWrongLabel and
//      lattice unchanged iff some operator is outside its site; otherwise stored verbatim under its order (nothing stored for amplitude 0).
void addterm_enumeration(const Args& a, Recorder& rec, Clock& clk) {
    const char* labs[3] = { "A", "B", "zz" }; int orbs[3] = { 1, 2, 0 }, spins[3] = { 2, 1, 0 };
    Lattice L; L.addSite(new Lattice::Site("A", 1, 2)); L.addSite(new Lattice::Site("B", 2, 1));
    long idx = 0, done = 0;
    for (int N : { 2, 3, 4 }) { long total = 1; for (int k = 0; k < N; ++k) total *= 27;
        for (long code = 0; code < total; ++code) { if ((idx++ % a.nshards) != a.shard) continue;
            bool seq[4]; std::string lab[4]; unsigned short orb[4], spin[4]; long c = code; bool valid = true;
            for (int k = 0; k < N; ++k) { int x = c % 27; c /= 27; int l = x / 9, o = (x / 3) % 3, z = x % 3; lab[k] = labs[l]; orb[k] = o; spin[k] = z; seq[k] = (k < (N + 1) / 2); if (o >= orbs[l] || z >= spins[l]) valid = false; }
            for (double v : { 1.25, 0.0 }) {
                size_t before = L.Terms->Terms.count(N) ? L.Terms->Terms.at(N).size() : 0; size_t keys = L.Terms->Terms.size(); unsigned mo = L.Terms->MaxTermOrder;
                Lattice::Term* T = new Lattice::Term(N, seq, v, lab, orb, spin); bool threw = false, other = false;
                try { L.addTerm(T); } catch (Lattice::exWrongLabel&) { threw = true; } catch (std::exception&) { other = true; }
                size_t after = L.Terms->Terms.count(N) ? L.Terms->Terms.at(N).size() : 0; rec.evaluations++; ++done;
                auto kase = [&]() { std::string s = "lattice A(1,2) B(2,1) | addTerm(" + std::to_string(v) + " *"; for (int k = 0; k < N; ++k) s += std::string(seq[k] ? " c+[" : " c[") + lab[k] + "," + std::to_string(orb[k]) + "," + std::to_string(spin[k]) + "]"; return s + ")"; };
                if (other) rec.violation("C20:addTerm-enumeration:other-exception", "addTerm fails with something else than exWrongLabel", kase());
                else if (!valid && !threw) rec.violation("C20:addTerm-enumeration:accepted-invalid", "a term with an unknown site or an orbital / spin outside its site is accepted", kase());
                else if (valid && threw) rec.violation("C20:addTerm-enumeration:rejected-valid", "a valid term is rejected", kase());
                if (threw && (after != before || L.Terms->Terms.size() != keys || L.Terms->MaxTermOrder != mo)) rec.violation("C20:addTerm-enumeration:rejected-but-modified", "a rejected term changes the lattice", kase());
                if (!threw && !other) { size_t want = before + (v != 0 ? 1 : 0); if (after != want) rec.violation(v != 0 ? "C20:addTerm-enumeration:not-stored" : "C20:addTerm-enumeration:zero-amplitude-stored", "term count of its order after an accepted call is wrong", kase());
                    else if (v != 0) { const Lattice::Term& Sx = *L.Terms->Terms.at(N).back(); bool same = (Sx.getOrder() == (unsigned)N && Sx.Value == MelemType(v)); for (int k = 0; k < N && same; ++k) same = (Sx.SiteLabels[k] == lab[k] && Sx.Orbitals[k] == orb[k] && Sx.Spins[k] == spin[k] && Sx.OperatorSequence[k] == seq[k]); if (!same) rec.violation("C20:addTerm-enumeration:stored-differs", "the stored term differs from the one passed in", kase()); }
                    if (v != 0 && after > 64) { L.Terms->Terms.at(N).clear(); }      // keep the list short (list growth is not what is enumerated here)
                }
                if (threw || other || v == 0) delete T;
            }
        }
        if (clk.s() > a.deadline) { rec.exhaustive = false; break; }
    }
    rec.counters["addterm_calls"] += done;
}

int run(const Args& a, Recorder& rec) {
    Clock clk; std::vector<LOp> A = make_alphabet(a.thorough()); int maxdepth = a.thorough() ? 4 : 3;
    struct Node { std::vector<int> hist; };
    std::unordered_set<std::string> seen; std::vector<Node> frontier, all;
    {   // start states: the empty lattice and several site layouts (BFS also reaches them, but later than the depth bound allows terms on top)
        std::vector<std::vector<std::string> > seeds = { {}, { "addSite(A,1,2)" }, { "addSite(A,1,2)", "addSite(B,1,2)" }, { "addSite(A,1,2)", "addSite(B,1,1)" }, { "addSite(A,1,2)", "addSite(B,2,2)" }, { "addSite(B,2,2)", "addSite(a,1,2)" }, { "addSite(A,1,2)", "addSite(B,1,1)", "addSite(a,1,2)" } };
        for (auto& sd : seeds) { Node n; for (auto& nm : sd) for (size_t k = 0; k < A.size(); ++k) if (A[k].repr() == nm) n.hist.push_back((int)k);
            Lattice L; RState R; replay(L, R, A, n.hist); if (seen.insert(dump(L)).second) { frontier.push_back(n); all.push_back(n); } }
    }
    auto hrepr = [&](const std::vector<int>& h) { std::string s; for (size_t i = 0; i < h.size(); ++i) { s += (i ? ";" : ""); s += A[h[i]].repr(); } return s.empty() ? std::string("<empty>") : s; };
    long idx = 0;
    // Term factories: undefined index combinations
    {
        rec.evaluations++;
        for (int o1 = 0; o1 < 2; ++o1) for (int o2 = 0; o2 < 2; ++o2) for (int s1 = 0; s1 < 2; ++s1) for (int s2 = 0; s2 < 2; ++s2) {
            bool undefined = (o1 == o2 || s1 == s2);
            for (int which = 0; which < 2; ++which) {
                bool threw = false; Lattice::Term* T = 0;
                try { T = which ? Lattice::Term::Presets::PairHopping("A", 1.0, o1, o2, s1, s2) : Lattice::Term::Presets::Spinflip("A", 1.0, o1, o2, s1, s2); } catch (Lattice::Term::Presets::exWrongIndices&) { threw = true; }
                delete T;
                if (threw != undefined) rec.violation(std::string("C20:factory:") + (which ? "PairHopping" : "Spinflip"), "term factory accepts an undefined index combination or rejects a defined one", std::string(which ? "PairHopping" : "Spinflip") + "(A,1," + std::to_string(o1) + "," + std::to_string(o2) + "," + std::to_string(s1) + "," + std::to_string(s2) + ")");
            }
        }
    }
    for (int d = 0; d <= maxdepth; ++d) {
        std::vector<Node> next;
        for (auto& nd : frontier) {
            bool mine = (idx++ % a.nshards) == a.shard; std::string hr = hrepr(nd.hist);
            if (!a.want(hr)) mine = false;
            // ---- invariants in this state (own share only)
            if (mine) {
                marker("C20 " + hr); rec.states++; rec.evaluations++; if (idx % 211 == 0) rec.sample(hr);
                Lattice L; RState R; replay(L, R, A, nd.hist);
                if (nd.hist.size() >= 2) rec.nontrivial++;
                std::string bad; if (!all_terms_valid(L, R.sites, bad)) rec.violation("C20:stored-invalid-term", "the lattice stores a term that refers outside its sites: " + bad, hr);
                // getSite for known and unknown labels (isolated: a wrong lookup may dereference end())
                for (const char* l : { "A", "B", "a", "zz" }) {
                    bool known = R.sites.count(l) > 0; std::string lab = l; RSite want = known ? R.sites[l] : RSite();
                    // no isolation needed: a wrongly returned reference is never dereferenced for unknown labels
                    int rc; try { const Lattice::Site& s = L.getSite(lab); if (!known) rc = 3; else rc = (s.Label == lab && s.OrbitalSize == want.orb && s.SpinSize == want.spin) ? 0 : 2; } catch (Lattice::exWrongLabel&) { rc = 1; } catch (...) { rc = 91; }
                    if (known && rc == 1) rec.violation("C20:getSite:known-label-throws", "getSite(label) throws for a site that was added under that label", hr + " getSite(" + lab + ")");
                    else if (known && rc == 2) rec.violation("C20:getSite:wrong-site", "getSite(label) returns a different site", hr + " getSite(" + lab + ")");
                    else if (!known && rc == 3) rec.violation("C20:getSite:unknown-label-returns", "getSite(label) returns instead of failing for an unknown label", hr + " getSite(" + lab + ")");
                    else if (rc >= 200 || rc == 90 || rc == 91) rec.violation(std::string("C20:getSite:crash:") + (known ? "known" : "unknown"), "getSite crashed or threw something else (status " + std::to_string(rc) + ")", hr + " getSite(" + lab + ")");
                }
                // terms retrievable by order; max order
                unsigned maxo = 0; for (auto& kv : L.Terms->Terms) if (!kv.second.empty()) maxo = std::max(maxo, kv.first);
                if (L.getTermStorage().getMaxTermOrder() != maxo) rec.violation("C20:max-term-order", "getMaxTermOrder is not the largest order with stored terms", hr);
                for (unsigned n = 0; n <= 8; ++n) { size_t want = L.Terms->Terms.count(n) ? L.Terms->Terms.at(n).size() : 0; if (dump_terms(L, n).size() != want) rec.violation("C20:terms-by-order", "getTerms(n) does not return the terms stored under order n", hr); }
                for (unsigned n = 0; n <= 8; ++n) { const Lattice::TermList& tl = L.getTermStorage().getTerms(n); for (auto it = tl.begin(); it != tl.end(); ++it) if ((*it)->getOrder() != n) rec.violation("C20:terms-by-order", "getTerms(n) returns a term of another order", hr); }
                // copy defines the same model, and is independent of later changes
                if (!R.sites.empty()) {
                    Lattice Lc(L); std::string d0 = dump(L);
                    if (dump(Lc) != d0) rec.violation("C20:copy-differs", "copy-constructed lattice has different sites/terms", hr);
                    const std::string first = R.sites.begin()->first;
                    Gen g; g.kind = LEVEL; g.l1 = first; g.v[0] = 0.25; apply_lib(L, g);
                    if (dump(Lc) != d0) rec.violation("C20:copy-not-independent", "a change to the original after copying shows up in the copy", hr);
                    Gen g2; g2.kind = LEVEL; g2.l1 = first; g2.v[0] = 0.75; std::string d1 = dump(L); apply_lib(Lc, g2);
                    if (dump(L) != d1) rec.violation("C20:copy-not-independent", "a change to the copy shows up in the original", hr);
                }
            }
            if (d == maxdepth) continue;
            // ---- transitions
            Lattice L0; RState R0; replay(L0, R0, A, nd.hist); std::string before = dump(L0);
            for (size_t k = 0; k < A.size(); ++k) {
                const LOp& op = A[k];
                if (op.is_site && R0.sites.count(op.site.label)) continue;       // re-adding a label is not in the alphabet
                rec.enum_transitions++;
                std::vector<int> h = nd.hist; h.push_back((int)k); std::string kase = hrepr(h);
                if (op.query) { Lattice L; RState R; replay(L, R, A, h); std::string key = dump(L); if (mine) { rec.evaluations++; std::string vis = key.substr(0, key.find("|orders:")), bvis = before.substr(0, before.find("|orders:")); if (vis != bvis) rec.violation("C20:query-changes-lattice", "a read-only lookup changed the sites or terms", kase); } if (seen.insert(key).second) { Node n; n.hist = h; next.push_back(n); all.push_back(n); } continue; }
                if (op.is_site) { Lattice L; RState R; replay(L, R, A, h); std::string key = dump(L); if (seen.insert(key).second) { Node n; n.hist = h; next.push_back(n); all.push_back(n); } continue; }
                bool valid = ref_valid(op.g, R0.sites);
                Lattice L; RState R; replay(L, R, A, nd.hist);
                refed::Mat Hb; bool haveH = false; int modes = 0; for (auto& kv : R.sites) modes += kv.second.orb * kv.second.spin;
                if (valid && zero_params(op.g) && !R.sites.empty() && modes <= 6) { IndexClassification IC(L.getSiteMap()); IC.prepare(); std::string bd; if (all_terms_valid(L, R.sites, bd)) { Hb = lattice_H(L, IC); haveH = true; } }
                std::string nzb = (valid && zero_params(op.g)) ? dump_nonzero(L) : std::string();
                bool threw = false; std::string exname;
                try { apply_lib(L, op.g); } catch (Lattice::exWrongLabel&) { threw = true; exname = "exWrongLabel"; } catch (Lattice::Term::Presets::exWrongIndices&) { threw = true; exname = "exWrongIndices"; } catch (std::exception& e) { threw = true; exname = "other"; }
                std::string after = dump(L);
                if (mine) {
                    rec.evaluations++;
                    std::string fam = (op.g.kind == RAW ? "addTerm" : op.g.repr().substr(0, op.g.repr().find('(')));
                    if (!valid && !threw) rec.violation("C20:accepted-invalid:" + fam, "a call with an unknown site / out-of-range orbital or spin / undefined preset combination is accepted", kase);
                    if (valid && threw) rec.violation("C20:rejected-valid:" + fam, "a valid call is rejected (" + exname + ")", kase);
                    if (threw && after != before) rec.violation("C20:rejected-but-modified:" + fam, "a rejected call left the lattice modified", kase);
                    if (valid && !threw && op.g.kind == RAW && op.g.v[0] == cd(0) && after != before) rec.violation("C20:zero-term-stored", "a zero-amplitude term was stored", kase);
                    if (valid && !threw && zero_params(op.g) && !haveH && dump_nonzero(L) != nzb) rec.violation("C20:zero-preset-changes-model:" + fam, "a preset with all-zero parameters added non-zero terms", kase);
                    if (valid && !threw && haveH) { IndexClassification IC(L.getSiteMap()); IC.prepare(); std::string bd; if (all_terms_valid(L, R.sites, bd) && maxabs(lattice_H(L, IC) - Hb) > 1e-14) rec.violation("C20:zero-preset-changes-model:" + fam, "a preset with all-zero parameters changed the model", kase); }
                    if (valid && !threw && op.g.kind == RAW && op.g.v[0] != cd(0)) {
                        // exactly one new term, equal to the one handed in
                        Lattice::Term* T = make_term(op.g.raw, to_melem(op.g.v[0])); std::string ts = term_str(*T); delete T;
                        std::vector<std::string> nb = dump_terms(L0, op.g.raw.size()), na = dump_terms(L, op.g.raw.size());
                        if (na.size() != nb.size() + 1 || std::count(na.begin(), na.end(), ts) != std::count(nb.begin(), nb.end(), ts) + 1) rec.violation("C20:addTerm-not-stored", "a valid non-zero term is not retrievable by its order afterwards", kase);
                    }
                }
                if (!threw && seen.insert(after).second) { Node n; n.hist = h; next.push_back(n); all.push_back(n); }
            }
        }
        rec.enum_states += frontier.size();
        frontier.swap(next);
        if (clk.s() > a.deadline) { rec.exhaustive = false; rec.note("deadline at depth " + std::to_string(d)); break; }
    }
    rec.bound = "BFS depth " + std::to_string(maxdepth) + " over " + std::to_string(A.size()) + " calls; " + std::to_string(all.size()) + " distinct lattice states; all 2 x (27^2+27^3+27^4) raw addTerm argument tuples";
    addterm_enumeration(a, rec, clk);
    return 0;
}
} // namespace
REGISTER_CHECK("C20", run);
