// shared by all check TUs
#pragma once
#include "../engines/harness.hpp"

namespace mx {

typedef int (*CheckFn)(const Args&, Recorder&);
}
std::map<std::string, mx::CheckFn>& registry();
namespace mx {
struct Reg { Reg(const char* n, CheckFn f) { registry()[n] = f; } };
#define REGISTER_CHECK(name, fn) static mx::Reg reg_##fn(name, fn)

// ---- plan: which shapes / depths / betas a model-space check explores ------------------------------------------------
struct PlanItem { std::string shape; int depth; AlphabetOpts opts; };

inline std::vector<PlanItem> plan_modelspace(const Args& a, const char* profile) {
    // profiles: "g" = cheap G-level predicates, "x" = expensive (2PGF-level), "s" = structural (no thermal part)
    std::vector<PlanItem> P; bool T = a.thorough(); std::string p = profile;
    auto add = [&](const char* s, int d, bool rich = true, bool raw = true, bool off = false) { PlanItem it; it.shape = s; it.depth = d; it.opts.rich = rich; it.opts.with_raw = raw; it.opts.with_offsets = off; P.push_back(it); };
    if (p == "g" || p == "s") {
        add("S1", T ? 3 : 2); add("S2", T ? 3 : 3); add("S3", T ? 3 : 2); add("S4", T ? 3 : 2); add("S5", T ? 3 : 2);
        add("S6", 2, T); add("S7", 2, T);
        if (T) { add("S8", 1); add("S9", 1); add("S10", 1); }
    } else if (p == "x") {
        add("S1", T ? 2 : 1); add("S2", T ? 3 : 2); add("S3", T ? 2 : 1); add("S4", T ? 2 : 1);
        add("S6", T ? 1 : 1, false); if (T) add("S7", 1, false);
    }
    if (!a.only.empty()) { std::vector<PlanItem> Q; for (auto& it : P) if (a.only.find(it.shape + ",") != std::string::npos || a.only == it.shape) Q.push_back(it); P.swap(Q); }
    return P;
}

// ---- per-state context: the real pipeline + the reference ------------------------------------------------------------
struct Ctx {
    Shape sh; std::vector<Gen> A; MState st; std::string repr;
    Pipe P; refed::Mat Href; bool ok;        // ok=false: library rejected / C04-mismatch -> skip
    std::string skip_reason;
};

// build lattice + indices + symbolic H; compute reference H from stored terms; verify the library's symbolic H agrees
// (otherwise the state is C04's business and is skipped here)
inline bool ctx_begin(Ctx& c, SymMode mode, const std::vector<Operator>* custom = 0) {
    c.ok = false;
    c.P.make_lattice(c.sh, hist_gens(c.A, c.st.hist));
    c.Href = lattice_H(*c.P.L, *c.P.IC);
    if (maxabs(c.Href - c.Href.adjoint()) > 1e-12) { c.skip_reason = "non-hermitian"; return false; }
    if (custom) c.P.make_states(SYM_CUSTOM, *custom); else c.P.make_states(mode);
    refed::Mat Hs = c.P.symbolic_H();
    if (maxabs(Hs - c.Href) > 1e-10) { c.skip_reason = "symbolic H differs from term list (reported under C04)"; return false; }
    c.ok = true; return true;
}

// iterate all states of a plan, sharded; f(ctx) evaluates predicates
template <class F>
inline void for_each_state(const Args& a, Recorder& rec, const std::vector<PlanItem>& plan, F f, Clock& clk) {
    long gidx = 0; std::string bounds;
    for (auto& it : plan) {
        Shape sh = make_shape(it.shape); std::vector<Gen> A = alphabet(sh, it.opts);
#ifdef POMEROL_COMPLEX_MATRIX_ELEMENTS
        add_complex_gens(sh, A);
#endif
        BFSResult R = bfs_models(sh, A, it.depth);
        rec.enum_states += R.states.size(); rec.enum_transitions += R.transitions;
        bounds += it.shape + ":d" + std::to_string(it.depth) + ":" + std::to_string(R.states.size()) + "st/" + std::to_string(A.size()) + "gen ";
        for (size_t i = 0; i < R.states.size(); ++i, ++gidx) {
            if (gidx % a.nshards != a.shard) continue;
            if (clk.s() > a.deadline) { rec.exhaustive = false; rec.note("deadline hit in " + it.shape + " at state " + std::to_string(i)); break; }
            Ctx c; c.sh = sh; c.A = A; c.st = R.states[i]; c.repr = hist_repr(sh, A, c.st.hist);
            if (!a.want(c.repr)) continue;
            marker(rec.check + " " + c.repr); rec.states++;
            if (i % 97 == 0) rec.sample(c.repr);
            try { f(c); }
            catch (std::exception& e) { rec.violation(rec.check + ":exception:" + it.shape + ":" + e.what(), std::string("unexpected exception: ") + e.what(), c.repr); }
        }
    }
    rec.bound = bounds;
}

} // namespace mx
