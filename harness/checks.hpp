// shared by all check TUs
#pragma once
#include "../engines/harness.hpp"

namespace mx {

typedef int (*CheckFn)(const Args&, Recorder&);
}
std::map<std::string, mx::CheckFn>& registry();
namespace mx {
struct Reg { Reg(const char* n, CheckFn f) { registry()[n] = f; } };
#define REGISTER_CHECK(name, fn) static mx::Reg reg_##fn(name, fn)

// ---- plan: which shapes / depths / betas a model-space check explores ------------------------------------------------
struct PlanItem { std::string shape; int depth; AlphabetOpts opts; };

inline std::vector<PlanItem> plan_modelspace(const Args& a, const char* profile) {
    // profiles: "g" = cheap G-level predicates, "x" = expensive (2PGF-level), "s" = structural (no thermal part)
    std::vector<PlanItem> P; bool T = a.thorough(); std::string p = profile;
    auto add = [&](const char* s, int d, bool rich = true, bool raw = true, bool off = false) { PlanItem it; it.shape = s; it.depth = d; it.opts.rich = rich; it.opts.with_raw = raw; it.opts.with_offsets = off; P.push_back(it); };
    if (T && (p == "s" || p == "G")) {   // thorough tier of the predicates that are cheapest per state (spectrum, field operators, G): one level deeper everywhere
        add("S1", 5); add("S2", 5); add("S3", 4); add("S4", 4); add("S5", 4);
        add("S6", 3); add("S7", 3); add("S11", 3); add("S4r", 3); add("S8", 2); add("S9", p == "s" ? 2 : 1); add("S10", 2);
    } else if (p == "g" || p == "s" || p == "G") {          // predicates that are cheap per state
        add("S1", T ? 4 : 3); add("S2", T ? 4 : 3); add("S3", 3); add("S4", 3); add("S5", 3);
        add("S6", 2, T); add("S7", 2, T); add("S11", 2);
        if (T) { add("S4r", 2); add("S8", 1); add("S9", 1); add("S10", 1); }
    } else if (p == "m") {               // predicates that are expensive per state (many analyses / many observables per state)
        add("S1", T ? 3 : 2); add("S2", 3); add("S3", T ? 3 : 2); add("S4", T ? 3 : 2); add("S5", T ? 3 : 2);
        add("S6", 2, T); add("S7", 2, T); add("S11", T ? 2 : 1);
        if (T) { add("S8", 1); add("S9", 1); add("S10", 1); }
    } else if (p == "x") {               // two-particle predicates (reference cost O(6 D^4) per tuple and frequency triple)
        add("S1", T ? 3 : 2); add("S2", 3); add("S3", T ? 2 : 1); add("S4", 2);
        add("S6", 1, T); if (T) add("S7", 1, false);
    }
    if (!a.only.empty()) { std::vector<PlanItem> Q; for (auto& it : P) if (a.only.find(it.shape + ",") != std::string::npos || a.only == it.shape) Q.push_back(it); P.swap(Q); }
    return P;
}

// ---- per-state context: the real pipeline + the reference ------------------------------------------------------------
struct Ctx {
    Shape sh; std::vector<Gen> A; MState st; std::string repr;
    Pipe P; refed::Mat Href; bool ok;        // ok=false: library rejected / C04-mismatch -> skip
    std::string skip_reason;
};

// build lattice + indices + symbolic H; compute reference H from stored terms; verify the library's symbolic H agrees
// (otherwise the state is C04's business and is skipped here)
inline bool ctx_begin(Ctx& c, SymMode mode, const std::vector<Operator>* custom = 0) {
    c.ok = false;
    c.P.make_lattice(c.sh, hist_gens(c.A, c.st.hist));
    c.Href = lattice_H(*c.P.L, *c.P.IC);
    if (maxabs(c.Href - c.Href.adjoint()) > 1e-12) { c.skip_reason = "non-hermitian"; return false; }
    if (custom) c.P.make_states(SYM_CUSTOM, *custom); else c.P.make_states(mode);
    refed::Mat Hs = c.P.symbolic_H();
    if (maxabs(Hs - c.Href) > 1e-10) { c.skip_reason = "symbolic H differs from term list (reported under C04)"; return false; }
    c.ok = true; return true;
}

// iterate all states of a plan, sharded; f(ctx) evaluates predicates
template <class F>
inline void for_each_state(const Args& a, Recorder& rec, const std::vector<PlanItem>& plan, F f, Clock& clk) {
    long gidx = 0; std::string bounds;
    for (auto& it : plan) {
        Shape sh = make_shape(it.shape); std::vector<Gen> A = alphabet(sh, it.opts);
#ifdef POMEROL_COMPLEX_MATRIX_ELEMENTS
        add_complex_gens(sh, A);
#endif
        BFSResult R = bfs_models(sh, A, it.depth);
        rec.enum_states += R.states.size(); rec.enum_transitions += R.transitions;
        bounds += it.shape + ":d" + std::to_string(it.depth) + ":" + std::to_string(R.states.size()) + "st/" + std::to_string(A.size()) + "gen ";
        for (size_t i = 0; i < R.states.size(); ++i, ++gidx) {
            if (gidx % a.nshards != a.shard) continue;
            if (clk.s() > a.deadline) { rec.exhaustive = false; rec.note("deadline hit in " + it.shape + " at state " + std::to_string(i)); break; }
            Ctx c; c.sh = sh; c.A = A; c.st = R.states[i]; c.repr = hist_repr(sh, A, c.st.hist);
            if (!a.want(c.repr)) continue;
            marker(rec.check + " " + c.repr); rec.states++;
            if (i % 97 == 0) rec.sample(c.repr);
            try { f(c); }
            catch (std::exception& e) { rec.violation(rec.check + ":exception:" + it.shape + ":" + e.what(), std::string("unexpected exception: ") + e.what(), c.repr); }
        }
    }
    rec.bound = bounds;
}

} // namespace mx

namespace mx {

// ---- soundness of the partition produced by the symmetry analysis, judged on the REFERENCE operators (C07's predicates;
//      other checks use it to skip partitions that C07 reports, so that one defect is one report)
struct Soundness { bool address_ok, h_block_diag, ops_single_target; std::string why; bool ok() const { return address_ok && h_block_diag && ops_single_target; } };

inline std::vector<int> block_of_labels(const Pipe& P) { std::vector<int> b(P.D); for (unsigned long s = 0; s < (unsigned long)P.D; ++s) b[s] = P.S->getBlockNumber(QuantumState(s)); return b; }

inline Soundness soundness(const Pipe& P, const refed::Mat& Href, bool quadratic = true) {
    Soundness r; r.address_ok = r.h_block_diag = r.ops_single_target = true; int D = P.D, M = P.M;
    std::vector<int> cnt(D, 0); long total = 0;
    for (BlockNumber b = 0; b < P.S->NumberOfBlocks(); b++) { const std::vector<FockState>& st = P.S->getFockStates(b); total += st.size();
        for (size_t k = 0; k < st.size(); ++k) { unsigned long s = st[k].to_ulong(); if (s >= (unsigned long)D) { r.address_ok = false; r.why = "label out of range"; continue; } cnt[s]++;
            if ((int)P.S->getBlockNumber(QuantumState(s)) != (int)b || P.S->getInnerState(QuantumState(s)) != k) { r.address_ok = false; r.why = "address mismatch for label " + std::to_string(s); } } }
    for (int s = 0; s < D; ++s) if (cnt[s] != 1) { r.address_ok = false; r.why = "label " + std::to_string(s) + " appears " + std::to_string(cnt[s]) + " times"; }
    if (total != D) { r.address_ok = false; r.why = "block sizes do not add up to 2^M"; }
    if (!r.address_ok) return r;
    std::vector<int> blk = block_of_labels(P);
    for (int i = 0; i < D; ++i) for (int j = 0; j < D; ++j) if (std::abs(Href(i, j)) > 1e-12 && blk[i] != blk[j]) { r.h_block_diag = false; r.why = "H connects labels " + std::to_string(j) + "->" + std::to_string(i) + " of different blocks"; return r; }
    auto single = [&](const refed::Mat& O, const std::string& name) {
        std::map<int,int> target;
        for (int j = 0; j < D; ++j) for (int i = 0; i < D; ++i) if (std::abs(O(i, j)) > 1e-12) {
            auto it = target.find(blk[j]); if (it == target.end()) target[blk[j]] = blk[i]; else if (it->second != blk[i]) { r.ops_single_target = false; r.why = name + " maps block " + std::to_string(blk[j]) + " into more than one block"; return; } }
    };
    for (int i = 0; i < M && r.ops_single_target; ++i) { single(refed::c_op(M, i), "c_" + std::to_string(i)); single(refed::cdag_op(M, i), "c+_" + std::to_string(i)); }
    if (quadratic) for (int i = 0; i < M && r.ops_single_target; ++i) for (int j = 0; j < M && r.ops_single_target; ++j) single(refed::cdag_op(M, i) * refed::c_op(M, j), "c+_" + std::to_string(i) + "c_" + std::to_string(j));
    return r;
}

// ---- candidate integrals of motion (all diagonal in the Fock basis) ---------------------------------------------------
struct Candidate { std::string name; Operator op; };
inline std::vector<Candidate> candidates(const Pipe& P) {
    std::vector<Candidate> C; int M = P.M; using namespace OperatorPresets;
    auto add = [&](const std::string& n, const Operator& o) { Candidate c; c.name = n; c.op = o; C.push_back(c); };
    { Operator o; for (int i = 0; i < M; ++i) o += n(i); add("N", o); }
    bool all2 = true; for (auto& s : P.sh.sites) if (s.spin != 2) all2 = false;
    if (all2) { Operator o; for (int i = 0; i < M; ++i) { IndexClassification::IndexInfo info = P.IC->getInfo(i); o += n(i) * MelemType(info.Spin == up ? 0.5 : -0.5); } add("Sz", o); }
    for (auto& s : P.sh.sites) { Operator o; for (int i = 0; i < M; ++i) if (P.IC->getInfo(i).SiteLabel == s.label) o += n(i); add("N_site[" + s.label + "]", o); }
    { Operator o; bool any = false; for (int i = 0; i < M; ++i) if (P.IC->getInfo(i).Orbital == 0) { o += n(i); any = true; } if (any) add("N_orb0", o); }
    for (int z = 0; z < 2; ++z) { Operator o; bool any = false; for (int i = 0; i < M; ++i) if (P.IC->getInfo(i).Spin == z) { o += n(i); any = true; } if (any) add(z ? "N_up" : "N_down", o); }
    add("n_0", n(0));
    if (M >= 2) add("n_0*n_1", n(0) * n(1));
    { Operator o; for (int i = 0; i < M; ++i) o += n(i); add("N^2", o * o); }
    if (M >= 3) { Operator o = n(0) * MelemType(0.1) + n(1) * MelemType(0.2) + n(2) * MelemType(0.3); add("0.1n_0+0.2n_1+0.3n_2", o); }
    // candidates that leave the low indices alone (an acceptance test that stops early never looks at them)
    if (M >= 3) { add("n_last", n(M - 1)); add("n_(last-1)*n_last", n(M - 2) * n(M - 1)); }
    if (P.sh.sites.size() >= 2) { const std::string& lab = P.sh.sites.back().label; Operator o; bool any = false; for (int i = 0; i < M; ++i) if (P.IC->getInfo(i).SiteLabel == lab) { o += n(i); any = true; } if (any) add("N_site[" + lab + "]^2", o * o); }
    return C;
}

} // namespace mx

namespace mx {
enum StageRes { ST_OK = 0, ST_ANALYSIS_FAILED, ST_UNSOUND, ST_C04, ST_NONHERM };
// lattice -> indices -> symbolic H -> symmetry analysis -> states, classifying what belongs to other properties
inline StageRes stage_states(Ctx& c, Recorder& rec, SymMode mode, const std::vector<Operator>* custom = 0, bool need_quadratic = true) {
    try {
        if (!ctx_begin(c, mode, custom)) { rec.skipped++; rec.counters[c.skip_reason == "non-hermitian" ? "skipped_non_hermitian" : "skipped_c04_mismatch"]++; return c.skip_reason == "non-hermitian" ? ST_NONHERM : ST_C04; }
    } catch (std::exception& e) { rec.skipped++; rec.counters["skipped_analysis_threw(C07)"]++; return ST_ANALYSIS_FAILED; }
    Soundness s = soundness(c.P, c.Href, need_quadratic);
    if (!s.ok()) { rec.skipped++; rec.counters["skipped_unsound_partition(C07)"]++; return ST_UNSOUND; }
    return ST_OK;
}
inline const char* mode_name(SymMode m) { return m == SYM_DEFAULT ? "default" : m == SYM_IGNORE ? "ignored" : "custom"; }
} // namespace mx
namespace mx {
inline refed::Mat Mat_of(const Operator& O, int M) {
    int D = 1 << M; refed::Mat m = refed::Mat::Zero(D, D);
    for (unsigned long k = 0; k < (unsigned long)D; ++k) { std::map<FockState, MelemType> r = O.actRight(FockState(M, k)); for (auto it = r.begin(); it != r.end(); ++it) m(it->first.to_ulong(), k) += cd(it->second); }
    return m;
}
}
