// C02 (chi_ijkl equals its definition on all evaluation paths), C12 (Wick), C15 (vertex and its Matsubara storage)
#include "checks.hpp"
#include <pomerol/Vertex4.h>
#include <pomerol/MatsubaraContainers.h>
#include <array>
using namespace mx;

namespace {
typedef boost::tuple<ComplexType, ComplexType, ComplexType> FT;

std::vector<boost::tuple<long,long,long> > box(long lo, long hi) { std::vector<boost::tuple<long,long,long> > b; for (long a = lo; a <= hi; ++a) for (long c = lo; c <= hi; ++c) for (long d = lo; d <= hi; ++d) b.push_back(boost::make_tuple(a, c, d)); return b; }

std::vector<std::array<int,4> > tuples_for(int M, bool all) {
    std::vector<std::array<int,4> > t;
    for (int i = 0; i < M; ++i) for (int j = 0; j < M; ++j) for (int k = 0; k < M; ++k) for (int l = 0; l < M; ++l) {
        if (all || M <= 2) { t.push_back({ i, j, k, l }); continue; }
        // orbit representatives under the two exchange symmetries, plus tuples with a repeated index in either pair for M<=3
        if (i < j && k < l) t.push_back({ i, j, k, l });
        else if (M <= 3 && (i == j || k == l) && (i + j + k + l) % 3 == 0) t.push_back({ i, j, k, l });
    }
    return t;
}

int run_c02(const Args& a, Recorder& rec) {
    Clock clk; std::vector<double> betas = { 1, 10 }; if (a.thorough()) { betas.push_back(0.5); betas.push_back(40); }
    auto bx = box(-2, 1);
    for_each_state(a, rec, plan_modelspace(a, "x"), [&](Ctx& c) {
        if (stage_states(c, rec, SYM_DEFAULT, 0, false) != ST_OK) return;
        Pipe& P = c.P; int M = P.M; P.make_hamiltonian(); P.make_ops();
        if (nontrivial_H(c.Href)) rec.nontrivial++;
        bool big = (M >= 4); std::vector<std::array<int,4> > tups = tuples_for(M, a.thorough() && !big ? true : (M <= 3 && a.thorough()));
        for (double beta : betas) {
            if (big && !a.thorough() && beta != 1) continue;
            P.make_rho(beta);
            refed::Spectrum sp = refed::diagonalize(c.Href, beta);
            std::vector<refed::Mat> rc(M), rcx(M); for (int i = 0; i < M; ++i) { rc[i] = refed::to_eigenbasis(sp, refed::c_op(M, i)); rcx[i] = refed::to_eigenbasis(sp, refed::cdag_op(M, i)); }
            std::vector<FT> freqs; for (auto& b : bx) freqs.push_back(FT(refed::matsubara_f(beta, b.get<0>()), refed::matsubara_f(beta, b.get<1>()), refed::matsubara_f(beta, b.get<2>())));
            // container paths once per (state,beta): unsplit and split on the single-rank communicator
            std::set<IndexCombination4> want; for (auto& t : tups) want.insert(IndexCombination4(t[0], t[1], t[2], t[3]));
            std::map<IndexCombination4, std::vector<ComplexType> > tabN, tabS; bool contN = true, contS = true; std::string errN, errS;
            TwoParticleGFContainer XN(*P.IC, *P.S, *P.H, *P.rho, *P.Ops), XS(*P.IC, *P.S, *P.H, *P.rho, *P.Ops);
            try { XN.prepareAll(want); tabN = XN.computeAll(false, freqs, P.comm, false); } catch (std::exception& e) { contN = false; errN = e.what(); }
            try { XS.prepareAll(want); tabS = XS.computeAll(false, freqs, P.comm, true); } catch (std::exception& e) { contS = false; errS = e.what(); }
            std::string kb = c.repr + " | beta=" + std::to_string(beta);
            if (!contN) rec.violation("C02:container-unsplit-throws", "computeAll(split=false) throws: " + errN, kb);
            if (!contS) rec.violation("C02:container-split-throws", "computeAll(split=true) throws: " + errS, kb);
            for (auto& t : tups) {
                int i = t[0], j = t[1], k = t[2], l = t[3];
                std::string kase = kb + " chi(" + std::to_string(i) + std::to_string(j) + std::to_string(k) + std::to_string(l) + ")";
                const AnnihilationOperator& C1 = P.Ops->getAnnihilationOperator(i); const AnnihilationOperator& C2 = P.Ops->getAnnihilationOperator(j);
                const CreationOperator& X3 = P.Ops->getCreationOperator(k); const CreationOperator& X4 = P.Ops->getCreationOperator(l);
                TwoParticleGF A(*P.S, *P.H, C1, C2, X3, X4, *P.rho); A.prepare(); A.compute();
                TwoParticleGF B(*P.S, *P.H, C1, C2, X3, X4, *P.rho); B.prepare(); std::vector<ComplexType> tb = B.compute(false, freqs, P.comm);
                TwoParticleGF Cc(*P.S, *P.H, C1, C2, X3, X4, *P.rho); Cc.prepare(); std::vector<ComplexType> tc = Cc.compute(true, freqs, P.comm);
                // call histories on ONE object: prepare()/compute() again, a second frequency list, a non-purging then a purging computation
                { TwoParticleGF Hh(*P.S, *P.H, C1, C2, X3, X4, *P.rho); Hh.prepare(); Hh.compute(); Hh.prepare(); Hh.compute();
                  std::vector<FT> f2(freqs.rbegin(), freqs.rend()); TwoParticleGF H2(*P.S, *P.H, C1, C2, X3, X4, *P.rho); H2.prepare(); H2.prepare(); std::vector<ComplexType> t1 = H2.compute(false, freqs, P.comm), t2 = H2.compute(false, f2, P.comm), t3 = H2.compute(true, freqs, P.comm);
                  // (the library's compute() is once-only: a repeated call returns an empty table -- that is its convention, not demanded otherwise here;
                  //  a table that IS returned must be right, and the values of the object must not change)
                  bool ok1 = t1.size() == freqs.size(), ok2 = t2.size() == f2.size(), ok3 = t3.size() == freqs.size();
                  for (size_t w = 0; w < bx.size(); ++w) { rec.evaluations++; cd va = A(bx[w].get<0>(), bx[w].get<1>(), bx[w].get<2>()); double tp = 1e-10 * (1 + std::abs(va)); std::string kw = kase + " n=(" + std::to_string(bx[w].get<0>()) + "," + std::to_string(bx[w].get<1>()) + "," + std::to_string(bx[w].get<2>()) + ")";
                      { bool refused = false; cd v2 = 0; try { v2 = H2(bx[w].get<0>(), bx[w].get<1>(), bx[w].get<2>()); } catch (std::exception&) { refused = true; } if (!refused && std::abs(v2 - va) > tp) { rec.violation("C02:call-history:repeated-compute", "after compute(false,list);compute(false,other list);compute(true,list) the object's on-demand values changed", kw); break; } }
                      if (std::abs(Hh(bx[w].get<0>(), bx[w].get<1>(), bx[w].get<2>()) - va) > tp) { rec.violation("C02:call-history:prepare-compute-twice", "prepare();compute();prepare();compute() on one object changes its values", kw); break; }
                      if ((ok1 && std::abs(t1[w] - va) > tp) || (ok2 && std::abs(t2[bx.size() - 1 - w] - va) > tp) || (ok3 && std::abs(t3[w] - va) > tp)) { rec.violation("C02:call-history:tables", "a table returned by a repeated compute() (other list / purging after non-purging) differs from the plain value", kw); break; } } }
                refed::TwoPGFRef R(sp, rc[i], rc[j], rcx[k], rcx[l]);
                const std::vector<ComplexType>* tn = 0; const std::vector<ComplexType>* ts = 0;
                // a table is demanded for every component the container STORES (aliases of stored ones are evaluated through them;
                // a table filed under an alias key, if any, must still be right)
                bool storedN = XN.NonTrivialElements.count(IndexCombination4(i, j, k, l)) > 0, storedS = XS.NonTrivialElements.count(IndexCombination4(i, j, k, l)) > 0;
                { auto it = tabN.find(IndexCombination4(i, j, k, l)); if (it != tabN.end()) tn = &it->second; else if (contN && storedN) rec.violation("C02:container-unsplit-missing", "computeAll(split=false) returns no table for a stored component", kase); }
                { auto it = tabS.find(IndexCombination4(i, j, k, l)); if (it != tabS.end()) ts = &it->second; else if (contS && storedS) rec.violation("C02:container-split-missing", "computeAll(split=true) returns no table for a stored component", kase); }
                auto len_ok = [&](const std::vector<ComplexType>& v, const char* name) { if (v.size() != freqs.size()) { rec.violation(std::string("C02:table-length:") + name + (A.isVanishing() ? ":vanishing-component" : ":nonvanishing-component"), std::string("the returned table (") + name + ") has " + std::to_string(v.size()) + " entries for " + std::to_string(freqs.size()) + " frequencies", kase); return false; } return true; };
                bool lb = len_ok(tb, "compute(false,freqs)"), lc = len_ok(tc, "compute(true,freqs)"), ln = tn && len_ok(*tn, "computeAll-unsplit"), ls = ts && len_ok(*ts, "computeAll-split");
                for (size_t w = 0; w < bx.size(); ++w) {
                    rec.evaluations++;
                    long n1 = bx[w].get<0>(), n2 = bx[w].get<1>(), n3 = bx[w].get<2>();
                    std::string kw = kase + " n=(" + std::to_string(n1) + "," + std::to_string(n2) + "," + std::to_string(n3) + ")";
                    cd va = A(n1, n2, n3); cd vz = A(freqs[w].get<0>(), freqs[w].get<1>(), freqs[w].get<2>());
                    double tp = 1e-10 * (1 + std::abs(va));
                    if (std::abs(va - vz) > tp) rec.violation("C02:matsubara-number", "operator()(n1,n2,n3) differs from operator()(z1,z2,z3)", kw);
                    if (lb && std::abs(tb[w] - va) > tp) rec.violation("C02:path:compute(false,freqs)", "table entry differs from on-demand evaluation", kw);
                    if (lc && std::abs(tc[w] - va) > tp) rec.violation("C02:path:compute(true,freqs)", "table entry (terms purged) differs from on-demand evaluation", kw);
                    // after a purging computation the object may refuse on-demand evaluation (it throws); a value it does return must be right
                    { bool refused = false; cd vp = 0; try { vp = Cc(n1, n2, n3); } catch (std::exception&) { refused = true; }
                      if (!refused && std::abs(vp - va) > tp) rec.violation("C02:path:on-demand-after-purge", "after compute(true,freqs) on-demand evaluation returns a wrong value instead of the value or an error", kw);
                    }
                    { try { cd vb = B(n1, n2, n3); if (std::abs(vb - va) > tp) rec.violation("C02:path:on-demand-after-compute(false,freqs)", "on-demand evaluation after compute(false,freqs) differs from the plain computation", kw); } catch (std::exception& e) { rec.violation("C02:path:on-demand-after-compute(false,freqs)", std::string("on-demand evaluation after compute(false,freqs) throws: ") + e.what(), kw); } }
                    if (ln && std::abs((*tn)[w] - va) > tp) rec.violation("C02:path:computeAll-unsplit", "container table entry differs from on-demand evaluation of that component", kw);
                    if (ls && std::abs((*ts)[w] - va) > tp) rec.violation("C02:path:computeAll-split", "container table entry differs from on-demand evaluation of that component", kw);
                    refed::Val ref = R(freqs[w].get<0>(), freqs[w].get<1>(), freqs[w].get<2>());
                    double tol = 1e-7 * ref.S + 1e-11;
                    bool res = (n1 == n3) || (n2 == n3) || (n1 + n2 == -1);
                    if (!rec.within(std::abs(va - ref.v), tol, kw)) rec.violation(std::string("C02:value:") + (res ? "resonant-frequencies" : "generic-frequencies"), "chi differs from the time-ordered integral: lib=(" + std::to_string(va.real()) + "," + std::to_string(va.imag()) + ") ref=(" + std::to_string(ref.v.real()) + "," + std::to_string(ref.v.imag()) + ") S=" + std::to_string(ref.S), kw);
                }
            }
        }
    }, clk);
    return 0;
}

// ------------------------------------------------------------------------------------------------ C12
int run_c12(const Args& a, Recorder& rec) {
    Clock clk; long idx = 0; std::vector<double> betas = { 1, 10 }; auto bx = box(-2, 1);
    struct Case { std::string shape; std::vector<Gen> hist; std::string repr; };
    std::vector<Case> cases;
    auto hop = [&](const RawOp& x, const RawOp& y, double v, bool herm) { Gen g; g.kind = RAW; g.v[0] = v; g.herm = herm; RawOp cx = x; cx.creation = true; RawOp cy = y; cy.creation = false; g.raw = { cx, cy }; return g; };
    auto modes_of = [&](const Shape& sh) { std::vector<RawOp> m; for (auto& s : sh.sites) for (int o = 0; o < s.orb; ++o) for (int z = 0; z < s.spin; ++z) { RawOp r; r.creation = false; r.label = s.label; r.orb = o; r.spin = z; m.push_back(r); } return m; };
    auto enumerate = [&](const char* shape, const std::vector<double>& vals, const std::vector<std::pair<int,int> >& entries) {
        Shape sh = make_shape(shape); std::vector<RawOp> md = modes_of(sh); long n = 1; for (size_t k = 0; k < entries.size(); ++k) n *= vals.size();
        for (long t = 0; t < n; ++t) { Case c; c.shape = shape; long tt = t; c.repr = std::string(shape) + ":h{";
            for (auto& e : entries) { double v = vals[tt % vals.size()]; tt /= vals.size(); c.repr += std::to_string(e.first) + std::to_string(e.second) + "=" + std::to_string(v).substr(0, 4) + " "; if (v != 0) c.hist.push_back(hop(md[e.first], md[e.second], v, e.first != e.second)); }
            c.repr += "}"; cases.push_back(c); }
    };
    enumerate("S2", { 0, 1, -1, 0.5 }, { { 0, 0 }, { 1, 1 }, { 0, 1 } });
    enumerate("S3", a.thorough() ? std::vector<double>{ 0, 1, -1, 0.5 } : std::vector<double>{ 0, 1, -1 }, { { 0, 0 }, { 1, 1 }, { 2, 2 }, { 0, 1 }, { 0, 2 }, { 1, 2 } });
    enumerate("S1", { 0, 1, -1, 0.5 }, { { 0, 0 }, { 1, 1 }, { 0, 1 } });      // one spinful site, with and without spin-flip hybridisation
    enumerate("S6", { 0, -1 }, { { 0, 0 }, { 1, 1 }, { 0, 2 }, { 1, 3 }, { 0, 3 }, { 2, 2 } });   // two spinful sites: hopping, spin-flip hopping, level shifts
    for (auto& cs : cases) {
        if ((idx++ % a.nshards) != a.shard) continue;
        if (!a.want(cs.repr)) continue;
        marker("C12 " + cs.repr); rec.states++; rec.transitions++; if (idx % 173 == 0) rec.sample(cs.repr);
        Ctx c; c.sh = make_shape(cs.shape);
        try {
            c.P.make_lattice(c.sh, cs.hist); c.Href = lattice_H(*c.P.L, *c.P.IC); c.P.make_states(SYM_DEFAULT);
            if (maxabs(c.P.symbolic_H() - c.Href) > 1e-10) { rec.skipped++; continue; }
            Pipe& P = c.P; int M = P.M; P.make_hamiltonian(); P.make_ops();
            // single-particle matrix h_ij = <0| c_i H c+_j |0>
            Eigen::MatrixXcd h(M, M); for (int i = 0; i < M; ++i) for (int j = 0; j < M; ++j) h(i, j) = c.Href(1 << i, 1 << j);
            if (nontrivial_H(c.Href)) rec.nontrivial++;
            bool all_t = (M <= 3); std::vector<std::array<int,4> > tups = tuples_for(M, all_t);
            for (double beta : betas) {
                if (M >= 4 && beta != 1 && !a.thorough()) continue;
                P.make_rho(beta); P.make_gf();
                std::string kb = cs.repr + " | beta=" + std::to_string(beta);
                double SG = 0;
                for (long n = -3; n <= 2; ++n) { cd z = refed::matsubara_f(beta, n); Eigen::MatrixXcd g = (z * Eigen::MatrixXcd::Identity(M, M) - h).inverse();
                    for (int i = 0; i < M; ++i) for (int j = 0; j < M; ++j) { rec.evaluations++; cd lib = (*P.G)(i, j)(n); SG = std::max(SG, std::abs(g(i, j)));
                        if (!rec.within(std::abs(lib - g(i, j)), 1e-7 * (std::abs(g(i, j)) + 1 / std::abs(z)) + M * 4e-8 / std::abs(z.imag()), kb)) rec.violation("C12:free-propagator", "G(z) differs from (z-h)^-1", kb + " G(" + std::to_string(i) + "," + std::to_string(j) + ") n=" + std::to_string(n)); } }
                for (auto& t : tups) {
                    int i = t[0], j = t[1], k = t[2], l = t[3];
                    TwoParticleGF X(*P.S, *P.H, P.Ops->getAnnihilationOperator(i), P.Ops->getAnnihilationOperator(j), P.Ops->getCreationOperator(k), P.Ops->getCreationOperator(l), *P.rho); X.prepare(); X.compute();
                    Vertex4 V(X, (*P.G)(i, k), (*P.G)(j, l), (*P.G)(i, l), (*P.G)(j, k));
                    for (auto& b : bx) { rec.evaluations++; long n1 = b.get<0>(), n2 = b.get<1>(), n3 = b.get<2>();
                        cd g = V.value(n1, n2, n3); cd chi = X(n1, n2, n3);
                        double scale = std::abs(chi) + 2 * beta * SG * SG + 1e-3;
                        if (!rec.within(std::abs(g), 1e-7 * scale * 10, kb)) rec.violation(std::string("C12:vertex-nonzero:") + ((n1 == n3 || n2 == n3) ? "coinciding-frequencies" : "generic-frequencies"), "irreducible vertex of a quadratic model does not vanish: Gamma=(" + std::to_string(g.real()) + "," + std::to_string(g.imag()) + ") chi=" + std::to_string(std::abs(chi)), kb + " Gamma(" + std::to_string(i) + std::to_string(j) + std::to_string(k) + std::to_string(l) + ") n=(" + std::to_string(n1) + "," + std::to_string(n2) + "," + std::to_string(n3) + ")");
                    }
                }
            }
        } catch (std::exception& e) { rec.violation("C12:exception", std::string("unexpected exception: ") + e.what(), cs.repr); }
    }
    rec.bound = std::to_string(cases.size()) + " hopping matrices (S2: 64, S3: " + (a.thorough() ? "4096" : "729") + ", S1 spinful: 64, S6: 64) x beta {1,10} x tuples x box [-2,1]^3";
    return 0;
}

// ------------------------------------------------------------------------------------------------ C15
extern "C" void omp_set_num_threads(int);
struct Stub { long calls; Stub() : calls(0) {} ComplexType value(long a, long b, long c) const { const_cast<Stub*>(this)->calls++; return ComplexType(double(a) + 0.001 * double(b), double(c) + 1e-6 * double(a * 31 + b * 17)); } };

int run_c15(const Args& a, Recorder& rec) {
    Clock clk; long idx = 0;
    // (a) layout with an injective stub source: every window size, every triple in a box exceeding the window on all sides
    int Nmax = a.thorough() ? 8 : 6;
    for (int N = 0; N <= Nmax; ++N) {
        if ((idx++ % a.nshards) != a.shard) continue;
        std::string kase = "stub window N=" + std::to_string(N); if (!a.want(kase)) continue;
        marker("C15 " + kase); rec.states++; rec.transitions++; rec.nontrivial++;
        // the fill is an OpenMP loop: every team size (static schedule: deterministic for a given size) must store the same slices
        for (int team : { 2, 3, 4, 7 }) { omp_set_num_threads(team); Stub st; MatsubaraContainer4<Stub> mt; mt.fill(&st, N); omp_set_num_threads(1); bool bad = false;
            for (long n1 = -N - 2; n1 <= N + 1 && !bad; ++n1) for (long n2 = -N - 2; n2 <= N + 1 && !bad; ++n2) for (long n3 = -N - 2; n3 <= N + 1; ++n3) { rec.evaluations++;
                if (mt(n1, n2, n3) != st.value(n1, n2, n3)) { rec.violation("C15:storage-layout:openmp-team", "with an OpenMP team of " + std::to_string(team) + " threads a stored value differs from the source value", kase + " n=(" + std::to_string(n1) + "," + std::to_string(n2) + "," + std::to_string(n3) + ")"); bad = true; break; } } }
        Stub s; MatsubaraContainer4<Stub> mc; mc.fill(&s, N); long fills = s.calls; long hits = 0, misses = 0;
        for (long n1 = -N - 2; n1 <= N + 1; ++n1) for (long n2 = -N - 2; n2 <= N + 1; ++n2) for (long n3 = -N - 2; n3 <= N + 1; ++n3) {
            rec.evaluations++; long before = s.calls; ComplexType v = mc(n1, n2, n3); bool hit = (s.calls == before); (hit ? hits : misses)++;
            if (v != s.value(n1, n2, n3)) rec.violation("C15:storage-layout", "stored value differs from the source value for the same triple", kase + " n=(" + std::to_string(n1) + "," + std::to_string(n2) + "," + std::to_string(n3) + ")");
        }
        rec.counters["stub_hits"] += hits; rec.counters["stub_misses"] += misses; rec.sample(kase + ": " + std::to_string(fills) + " stored, " + std::to_string(hits) + " hits, " + std::to_string(misses) + " misses");
        if (N > 0 && hits == 0) rec.violation("C15:storage-never-hit", "the precomputed window is never used", kase);
    }
    // (a') refill histories: the same container filled again with another window size (grow, shrink, to zero and back): after every
    //      fill the whole box must read like the source -- stale slices of an earlier, larger window must not be served
    { int NR = a.thorough() ? 5 : 4, depth = 3; long total = 1; for (int d = 0; d < depth; ++d) total *= (NR + 1);
      for (long code = 0; code < total; ++code) {
        if ((idx++ % a.nshards) != a.shard) continue;
        int Ns[3]; long cdx = code; for (int d = 0; d < depth; ++d) { Ns[d] = cdx % (NR + 1); cdx /= (NR + 1); }
        std::string kase = "stub refill history N=" + std::to_string(Ns[0]) + "," + std::to_string(Ns[1]) + "," + std::to_string(Ns[2]); if (!a.want(kase)) continue;
        marker("C15 " + kase); rec.states++; rec.transitions += depth; if (Ns[0] != Ns[1] || Ns[1] != Ns[2]) rec.nontrivial++;
        Stub s; MatsubaraContainer4<Stub> mc; bool bad = false;
        for (int d = 0; d < depth && !bad; ++d) { mc.fill(&s, Ns[d]); int B = NR + 2;
            for (long n1 = -B - 1; n1 <= B && !bad; ++n1) for (long n2 = -B - 1; n2 <= B && !bad; ++n2) for (long n3 = -B - 1; n3 <= B; ++n3) { rec.evaluations++;
                if (mc(n1, n2, n3) != s.value(n1, n2, n3)) { rec.violation("C15:storage-refill", "after filling the same container again with another window size a lookup returns something else than the source value", kase + " after fill #" + std::to_string(d + 1) + " n=(" + std::to_string(n1) + "," + std::to_string(n2) + "," + std::to_string(n3) + ")"); bad = true; break; } } }
      } }
    // (b) the real Vertex4
    std::vector<PlanItem> plan; { PlanItem it; it.shape = "S1"; it.depth = a.thorough() ? 2 : 1; plan.push_back(it); PlanItem i2; i2.shape = "S2"; i2.depth = a.thorough() ? 2 : 1; plan.push_back(i2); if (a.thorough()) { PlanItem i3; i3.shape = "S4"; i3.depth = 1; plan.push_back(i3); } }
    for_each_state(a, rec, plan, [&](Ctx& c) {
        if (stage_states(c, rec, SYM_DEFAULT, 0, false) != ST_OK) return;
        Pipe& P = c.P; int M = P.M; P.make_hamiltonian(); P.make_ops(); double beta = 5; P.make_rho(beta); P.make_gf();
        if (nontrivial_H(c.Href)) rec.nontrivial++;
        for (auto& t : tuples_for(M, true)) {
            int i = t[0], j = t[1], k = t[2], l = t[3];
            TwoParticleGF X(*P.S, *P.H, P.Ops->getAnnihilationOperator(i), P.Ops->getAnnihilationOperator(j), P.Ops->getCreationOperator(k), P.Ops->getCreationOperator(l), *P.rho); X.prepare(); X.compute();
            { Vertex4 V(X, (*P.G)(i, k), (*P.G)(j, l), (*P.G)(i, l), (*P.G)(j, k)); int seq[4] = { 2, 1, 0, 2 };
              for (int q = 0; q < 4; ++q) { V.compute(seq[q]); std::string kase = c.repr + " | Gamma(" + std::to_string(i) + std::to_string(j) + std::to_string(k) + std::to_string(l) + ") recomputed N=2,1,0,2 step " + std::to_string(q + 1); bool bad = false;
                for (long n1 = -4; n1 <= 3 && !bad; ++n1) for (long n2 = -4; n2 <= 3 && !bad; ++n2) for (long n3 = -4; n3 <= 3; ++n3) { rec.evaluations++; if (V(n1, n2, n3) != V.value(n1, n2, n3)) { rec.violation("C15:vertex-storage-recompute", "after Vertex4::compute is called again with another window Vertex4::operator() differs from Vertex4::value()", kase + " n=(" + std::to_string(n1) + "," + std::to_string(n2) + "," + std::to_string(n3) + ")"); bad = true; break; } } } }
            for (int N = 0; N <= 2; ++N) {
                Vertex4 V(X, (*P.G)(i, k), (*P.G)(j, l), (*P.G)(i, l), (*P.G)(j, k)); V.compute(N);
                std::string kase = c.repr + " | Gamma(" + std::to_string(i) + std::to_string(j) + std::to_string(k) + std::to_string(l) + ") N=" + std::to_string(N);
                for (long n1 = -N - 2; n1 <= N + 1; ++n1) for (long n2 = -N - 2; n2 <= N + 1; ++n2) for (long n3 = -N - 2; n3 <= N + 1; ++n3) {
                    rec.evaluations++;
                    cd st = V(n1, n2, n3), dv = V.value(n1, n2, n3);
                    if (st != dv) { rec.violation("C15:vertex-storage", "Vertex4::operator() differs from Vertex4::value() for the same triple", kase + " n=(" + std::to_string(n1) + "," + std::to_string(n2) + "," + std::to_string(n3) + ")"); }
                    if (N == 0) {
                        cd ex = X(n1, n2, n3); if (n1 == n3) ex += beta * (*P.G)(i, k)(n1) * (*P.G)(j, l)(n2); if (n2 == n3) ex -= beta * (*P.G)(i, l)(n1) * (*P.G)(j, k)(n2);
                        if (std::abs(dv - ex) > 1e-10 * (1 + std::abs(ex))) rec.violation("C15:vertex-definition", "Vertex4::value() is not chi - chi0 as documented", kase + " n=(" + std::to_string(n1) + "," + std::to_string(n2) + "," + std::to_string(n3) + ")");
                    }
                }
            }
        }
    }, clk);
    rec.bound = "stub windows N=0.." + std::to_string(Nmax) + " x all triples of [-N-2,N+1]^3; real Vertex4: " + rec.bound + " x all tuples x N=0..2";
    return 0;
}
} // namespace
REGISTER_CHECK("C02", run_c02);
REGISTER_CHECK("C12", run_c12);
REGISTER_CHECK("C15", run_c15);
