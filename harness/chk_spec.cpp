// C03 (block diagonalisation = full eigen-system), C09 (density matrix / averages), C10 (eigenbasis field operators)
#include "checks.hpp"
using namespace mx;

namespace {

struct ModeSpec { SymMode mode; std::string name; std::vector<std::string> cand; };
std::vector<ModeSpec> modes_for(const Args& a, bool few) {
    std::vector<ModeSpec> m; m.push_back({ SYM_DEFAULT, "default", {} }); m.push_back({ SYM_IGNORE, "ignored", {} });
    m.push_back({ SYM_CUSTOM, "custom[N_site]", { "N_site[A]" } });
    if (!few) { m.push_back({ SYM_CUSTOM, "custom[n_0]", { "n_0" } }); m.push_back({ SYM_CUSTOM, "custom[N_up,N_down]", { "N_up", "N_down" } }); m.push_back({ SYM_CUSTOM, "custom[N]", { "N" } }); }
    return m;
}
// run stage_states for a ModeSpec (custom lists are resolved on a scratch pipe that has indices)
StageRes stage(Ctx& c, Recorder& rec, const ModeSpec& ms, bool need_quadratic = true) {
    if (ms.mode != SYM_CUSTOM) return stage_states(c, rec, ms.mode, 0, need_quadratic);
    Pipe tmp; tmp.make_lattice(c.sh, hist_gens(c.A, c.st.hist)); std::vector<Candidate> C = candidates(tmp); std::vector<Operator> ops;
    for (auto& n : ms.cand) for (auto& k : C) if (k.name == n) ops.push_back(k.op);
    return stage_states(c, rec, SYM_CUSTOM, &ops, need_quadratic);
}

// ------------------------------------------------------------------------------------------------ C03
int run_c03(const Args& a, Recorder& rec) {
    Clock clk; std::vector<ModeSpec> modes = modes_for(a, !a.thorough());
    for_each_state(a, rec, plan_modelspace(a, "s"), [&](Ctx& c0) {
        bool counted = false;
        for (auto& ms : modes) {
            Ctx c; c.sh = c0.sh; c.A = c0.A; c.st = c0.st; c.repr = c0.repr;
            std::string kase = c.repr + " | partition=" + ms.name;
            if (stage(c, rec, ms, false) != ST_OK) continue;
            Pipe& P = c.P; int D = P.D; double tol = 1e-9 * (1 + maxabs(c.Href));
            rec.evaluations++;
            if (!counted && nontrivial_H(c.Href)) { rec.nontrivial++; counted = true; }
            P.H.reset(new Hamiltonian(*P.IC, *P.HS, *P.S)); P.H->prepare(P.comm);
            // prepared block matrices = reference H restricted to the block
            for (BlockNumber b = 0; b < P.S->NumberOfBlocks(); b++) {
                const MatrixType& m = P.H->getPart(b).getMatrix(); int n = P.S->getBlockSize(b);
                if (m.rows() != n || m.cols() != n) { rec.violation("C03:block-matrix-size", "block matrix has wrong size", kase); continue; }
                for (int i = 0; i < n; ++i) for (int j = 0; j < n; ++j) {
                    cd ref = c.Href(P.S->getFockState(b, i).to_ulong(), P.S->getFockState(b, j).to_ulong());
                    if (std::abs(cd(m(i, j)) - ref) > 1e-12 * (1 + maxabs(c.Href))) { rec.violation("C03:block-matrix", "prepared block matrix differs from H restricted to the block", kase); i = n; break; }
                }
            }
            P.H->compute(P.comm);
            refed::Spectrum sp = refed::diagonalize(c.Href, 1.0);
            refed::Mat U; refed::RVec E; P.assemble_eigen(U, E);
            std::vector<double> es(E.data(), E.data() + D); std::sort(es.begin(), es.end());
            double dev = 0; for (int k = 0; k < D; ++k) dev = std::max(dev, std::abs(es[k] - sp.E(k)));
            if (!rec.within(dev, tol, kase + " spectrum")) rec.violation("C03:spectrum", "multiset of block eigenvalues differs from the full spectrum (max dev " + std::to_string(dev) + ")", kase);
            // orthonormality and eigen-equation, per block (U is block structured by construction of assemble_eigen)
            refed::Mat G = U.adjoint() * U; double odev = maxabs(G - refed::Mat::Identity(D, D));
            if (!rec.within(odev, 1e-9, kase + " orthonormality")) rec.violation("C03:orthonormal", "eigenvectors not orthonormal (dev " + std::to_string(odev) + ")", kase);
            refed::Mat Rm = c.Href * U - U * E.cast<cd>().asDiagonal(); double rdev = maxabs(Rm);
            if (!rec.within(rdev, tol, kase + " residual")) rec.violation("C03:eigen-equation", "H v != E v (residual " + std::to_string(rdev) + ")", kase);
            if (std::abs(P.H->getGroundEnergy() - sp.E0) > tol) rec.violation("C03:ground-energy", "getGroundEnergy is not the minimum of the spectrum", kase);
            // eigenvalue lookup by state label
            for (unsigned long s = 0; s < (unsigned long)D; ++s) {
                int b = P.S->getBlockNumber(QuantumState(s)); int k = P.S->getInnerState(QuantumState(s));
                if (P.H->getEigenValue(s) != P.H->getPart(BlockNumber(b)).getEigenValue(k)) { rec.violation("C03:eigenvalue-lookup", "getEigenValue(label) is not the value stored at (block,position) of that label", kase); break; }
            }
            RealVectorType all = P.H->getEigenValues(); bool same = all.size() == D; for (int k = 0; same && k < D; ++k) if (all(k) != E(k)) same = false;
            if (!same) rec.violation("C03:eigenvalue-concatenation", "Hamiltonian::getEigenValues is not the concatenation of the blocks' eigenvalues", kase);
            // 1x1 and large blocks counted
            for (BlockNumber b = 0; b < P.S->NumberOfBlocks(); b++) rec.counters[P.S->getBlockSize(b) == 1 ? "blocks_1x1" : "blocks_larger"]++;
        }
    }, clk);
    return 0;
}

// ------------------------------------------------------------------------------------------------ C09
int run_c09(const Args& a, Recorder& rec) {
    Clock clk; std::vector<double> betas = { 1e-3, 0.5, 5, 40, 1e3 };
    std::vector<PlanItem> plan = plan_modelspace(a, "m"); for (auto& it : plan) it.opts.with_offsets = true;
    std::vector<ModeSpec> modes = { { SYM_DEFAULT, "default", {} }, { SYM_IGNORE, "ignored", {} } };
    for_each_state(a, rec, plan, [&](Ctx& c0) {
        bool counted = false;
        for (auto& ms : modes) {
            Ctx c; c.sh = c0.sh; c.A = c0.A; c.st = c0.st; c.repr = c0.repr;
            if (stage(c, rec, ms, true) != ST_OK) continue;
            Pipe& P = c.P; int D = P.D, M = P.M; P.make_hamiltonian();
            refed::Mat U; refed::RVec E; std::vector<std::pair<int,int> > addr; P.assemble_eigen(U, E, &addr);
            if (!counted && nontrivial_H(c.Href)) { rec.nontrivial++; counted = true; }
            for (double beta : betas) {
                std::string kase = c.repr + " | partition=" + ms.name + " beta=" + std::to_string(beta);
                rec.evaluations++;
                P.make_rho(beta);
                refed::Spectrum sp = refed::diagonalize(c.Href, beta);
                // weights
                double sum = 0; bool bad = false; std::vector<double> w(D);
                for (int k = 0; k < D; ++k) { w[k] = P.rho->getPart(BlockNumber(addr[k].first)).getWeight(addr[k].second); if (!(w[k] >= 0) || !std::isfinite(w[k])) bad = true; sum += w[k]; }
                if (bad) { rec.violation("C09:weights-finite", "a statistical weight is negative or not finite", kase); continue; }
                if (std::abs(sum - 1) > 1e-12) rec.violation("C09:normalisation", "weights do not sum to one (sum-1 = " + std::to_string(sum - 1) + ")", kase);
                // call histories: prepare() / compute() called again in any order (all sequences of up to three further calls) leave every weight
                // and the average energy as they were
                { double e0 = P.rho->getAverageEnergy();
                  for (int len = 1; len <= 3; ++len) for (int code = 0; code < (1 << len); ++code) { DensityMatrix R(*P.S, *P.H, beta); R.prepare(); R.compute(); std::string hs = "prepare();compute()";
                      for (int q = 0; q < len; ++q) { if ((code >> q) & 1) { R.compute(); hs += ";compute()"; } else { R.prepare(); hs += ";prepare()"; } }
                      rec.evaluations++; double dmax = 0; for (int k = 0; k < D; ++k) dmax = std::max(dmax, std::abs(R.getPart(BlockNumber(addr[k].first)).getWeight(addr[k].second) - w[k]));
                      if (dmax > 1e-13 || std::abs(R.getAverageEnergy() - e0) > 1e-11 * (1 + std::abs(e0))) { rec.violation("C09:call-history", "weights or average energy change when prepare()/compute() are called again (max weight change " + std::to_string(dmax) + ")", kase + " | " + hs); break; } } }
                // ratios against the library's own eigenvalues (the eigenvalues themselves are C03's subject)
                int k0 = 0; for (int k = 0; k < D; ++k) if (w[k] > w[k0]) k0 = k;
                for (int k = 0; k < D; ++k) if (w[k] > 1e-300) {
                    double ex = std::exp(-beta * (E(k) - E(k0))), r = w[k] / w[k0];
                    if (std::abs(r - ex) > 1e-10 * (ex + 1e-300) + 1e-300) { rec.violation("C09:ratio", "w_a/w_b != exp(-beta(E_a-E_b))", kase); break; }
                } else if (std::exp(-beta * (E(k) - E(k0))) > 1e-290) { rec.violation("C09:ratio", "weight vanishes although exp(-beta dE) does not", kase); break; }
                // getWeight by state label
                for (unsigned long s = 0; s < (unsigned long)D; ++s) {
                    int b = P.S->getBlockNumber(QuantumState(s)), k = P.S->getInnerState(QuantumState(s));
                    if (P.rho->getWeight(s) != P.rho->getPart(BlockNumber(b)).getWeight(k)) { rec.violation("C09:weight-lookup", "getWeight(label) differs from the stored weight at the label's address", kase); break; }
                }
                // averages vs traces on the full Fock space
                auto cmp = [&](const char* what, cd lib, const refed::Mat& O) {
                    refed::Mat Oe = refed::to_eigenbasis(sp, O); cd ref = refed::thermal_avg(sp, Oe);
                    double S = 0; for (int k = 0; k < D; ++k) S += sp.w(k) * std::abs(Oe(k, k));
                    double tol = 1e-8 * (1 + S) + 1e-7 * beta * 1e-12 * (1 + maxabs(c.Href)) * (1 + S);
                    if (!rec.within(std::abs(lib - ref), tol, kase + " " + what)) rec.violation(std::string("C09:average:") + what, std::string(what) + " differs from Tr(rho O): lib=" + std::to_string(lib.real()) + " ref=" + std::to_string(ref.real()), kase);
                };
                cmp("energy", P.rho->getAverageEnergy(), c.Href);
                { refed::Mat Nt = refed::Mat::Zero(D, D); for (int i = 0; i < M; ++i) Nt += refed::n_op(M, i); cmp("occupancy", P.rho->getAverageOccupancy(), Nt); }
                for (int i = 0; i < M; ++i) cmp("occupancy_i", P.rho->getAverageOccupancy(i), refed::n_op(M, i));
                for (int i = 0; i < M; ++i) for (int j = 0; j < M; ++j) cmp("double_occupancy", P.rho->getAverageDoubleOccupancy(i, j), refed::n_op(M, i) * refed::n_op(M, j));
                for (int i = 0; i < M; ++i) for (int j = 0; j < M; ++j) {
                    QuadraticOperator Q(*P.IC, *P.S, *P.H, i, j); Q.prepare(); Q.compute();
                    EnsembleAverage EA(*P.S, *P.H, Q, *P.rho); EA.prepare();
                    cmp("ensemble_average", EA.getResult(), refed::cdag_op(M, i) * refed::c_op(M, j));
                }
            }
        }
    }, clk);
    return 0;
}

// ------------------------------------------------------------------------------------------------ C10
int run_c10(const Args& a, Recorder& rec) {
    Clock clk; std::vector<ModeSpec> modes = modes_for(a, true);
    for_each_state(a, rec, plan_modelspace(a, "s"), [&](Ctx& c0) {
        bool counted = false;
        for (auto& ms : modes) {
            Ctx c; c.sh = c0.sh; c.A = c0.A; c.st = c0.st; c.repr = c0.repr;
            std::string kase = c.repr + " | partition=" + ms.name;
            if (stage(c, rec, ms, true) != ST_OK) continue;
            Pipe& P = c.P; int D = P.D, M = P.M; P.make_hamiltonian(); rec.evaluations++;
            if (!counted && nontrivial_H(c.Href)) { rec.nontrivial++; counted = true; }
            refed::Mat U; refed::RVec E; P.assemble_eigen(U, E);
            double tol = 1e-8 * D;
            P.Ops.reset(new FieldOperatorContainer(*P.IC, *P.S, *P.H)); P.Ops->prepareAll(); P.Ops->computeAll();
            std::vector<refed::Mat> Cc(M), CXc(M);
            auto back = [&](const refed::Mat& Ce) { return refed::Mat(U * Ce * U.adjoint()); };
            auto check_maps = [&](FieldOperator& op, const refed::Mat& jw, const std::string& name) {
                // every non-zero reference element must lie in a listed block pair
                std::vector<int> blk = block_of_labels(P); const FieldOperator::BlocksBimap& bm = op.getBlockMapping();
                for (int j = 0; j < D; ++j) for (int i = 0; i < D; ++i) if (std::abs(jw(i, j)) > 1e-12) {
                    auto it = bm.right.find(BlockNumber(blk[j]));
                    if (it == bm.right.end() || (int)it->second != blk[i]) { rec.violation("C10:block-mapping", name + ": a non-zero matrix element lies outside the listed block pairs", kase); return; }
                }
            };
            for (int i = 0; i < M; ++i) {
                CreationOperator CX(*P.IC, *P.S, *P.H, i); CX.prepare(); CX.compute();
                AnnihilationOperator C(*P.IC, *P.S, *P.H, i); C.prepare(); C.compute();
                refed::Mat cx1 = P.dense_eigen(CX), c1 = P.dense_eigen(C), cx1c = P.dense_eigen(CX, true), c1c = P.dense_eigen(C, true);
                CXc[i] = P.dense_eigen(const_cast<CreationOperator&>(P.Ops->getCreationOperator(i)));
                Cc[i] = P.dense_eigen(const_cast<AnnihilationOperator&>(P.Ops->getAnnihilationOperator(i)));
                refed::Mat cxcc = P.dense_eigen(const_cast<CreationOperator&>(P.Ops->getCreationOperator(i)), true), ccc = P.dense_eigen(const_cast<AnnihilationOperator&>(P.Ops->getAnnihilationOperator(i)), true);
                refed::Mat jwc = refed::c_op(M, i), jwcx = refed::cdag_op(M, i);
                std::string si = std::to_string(i);
                if (!rec.within(maxabs(back(cx1) - jwcx), tol, kase + " c+_" + si)) rec.violation("C10:creation:one-by-one", "rotated-back c+_" + si + " differs from its Jordan-Wigner matrix", kase);
                if (!rec.within(maxabs(back(c1) - jwc), tol, kase + " c_" + si)) rec.violation("C10:annihilation:one-by-one", "rotated-back c_" + si + " differs from its Jordan-Wigner matrix", kase);
                if (!rec.within(maxabs(back(CXc[i]) - jwcx), tol, kase + " cont c+_" + si)) rec.violation("C10:creation:container", "container c+_" + si + " differs from its Jordan-Wigner matrix", kase);
                if (!rec.within(maxabs(back(Cc[i]) - jwc), tol, kase + " cont c_" + si)) rec.violation("C10:annihilation:container", "container c_" + si + " differs from its Jordan-Wigner matrix", kase);
                if (maxabs(cx1 - cx1c) > 1e-14 || maxabs(c1 - c1c) > 1e-14 || maxabs(CXc[i] - cxcc) > 1e-14 || maxabs(Cc[i] - ccc) > 1e-14) rec.violation("C10:row-col-major", "row-major and column-major copies of a stored operator differ", kase);
                if (maxabs(Cc[i] - CXc[i].adjoint()) > 1e-14) rec.violation("C10:adjoint:container", "container c_" + si + " is not the Hermitian conjugate of c+_" + si, kase);
                if (maxabs(c1 - cx1.adjoint()) > 2 * tol) rec.violation("C10:adjoint:one-by-one", "stored c_" + si + " is not the Hermitian conjugate of stored c+_" + si, kase);
                check_maps(CX, jwcx, "c+_" + si); check_maps(C, jwc, "c_" + si);
                check_maps(const_cast<CreationOperator&>(P.Ops->getCreationOperator(i)), jwcx, "container c+_" + si);
                check_maps(const_cast<AnnihilationOperator&>(P.Ops->getAnnihilationOperator(i)), jwc, "container c_" + si);
                for (int j = 0; j < M; ++j) {
                    QuadraticOperator Q(*P.IC, *P.S, *P.H, i, j); Q.prepare(); Q.compute();
                    refed::Mat jw = refed::cdag_op(M, i) * refed::c_op(M, j);
                    if (!rec.within(maxabs(back(P.dense_eigen(Q)) - jw), tol, kase + " quad")) rec.violation("C10:quadratic", "rotated-back c+_" + si + " c_" + std::to_string(j) + " differs from its Jordan-Wigner matrix", kase);
                    check_maps(Q, jw, "c+_" + si + "c_" + std::to_string(j));
                }
            }
            // container call histories: every sequence of up to four calls from {prepareAll(), prepareAll({0}), prepareAll({last}), computeAll()} that ends
            // with computeAll().  Every index that was ever prepared must then have computed operators equal to the one-by-one ones, and a Green's
            // function built from the operators handed out after the FIRST computeAll() must still be usable (the references it keeps stay valid)
            if (M >= 2 && c.st.hist.size() <= 1) {
                for (int len = 2; len <= 4; ++len) { long cnt = 1; for (int q = 0; q < len - 1; ++q) cnt *= 4;
                  for (long code = 0; code < cnt; ++code) { long cdx = code; std::vector<int> seq; bool anyprep = false; for (int q = 0; q < len - 1; ++q) { seq.push_back(cdx % 4); cdx /= 4; } seq.push_back(3);
                    for (int o : seq) if (o < 3) anyprep = true; if (!anyprep) continue;
                    FieldOperatorContainer FC(*P.IC, *P.S, *P.H); std::set<int> prepared; std::string hs; std::unique_ptr<GreensFunction> keep; int keep_i = -1; bool bad = false;
                    DensityMatrix R(*P.S, *P.H, 1.0); R.prepare(); R.compute();
                    for (size_t q = 0; q < seq.size() && !bad; ++q) { int o = seq[q];
                        try {
                            if (o == 0) { FC.prepareAll(); for (int i = 0; i < M; ++i) prepared.insert(i); hs += "prepareAll();"; }
                            else if (o == 1) { std::set<ParticleIndex> st; st.insert(0); FC.prepareAll(st); prepared.insert(0); hs += "prepareAll({0});"; }
                            else if (o == 2) { std::set<ParticleIndex> st; st.insert(M - 1); FC.prepareAll(st); prepared.insert(M - 1); hs += "prepareAll({last});"; }
                            else { FC.computeAll(); hs += "computeAll();";
                                if (!keep && !prepared.empty()) { keep_i = *prepared.begin(); keep.reset(new GreensFunction(*P.S, *P.H, FC.getAnnihilationOperator(keep_i), FC.getCreationOperator(keep_i), R)); } }
                        } catch (std::exception& e) { rec.violation("C10:container-history:throws", std::string("a container call throws: ") + e.what(), kase + " | " + hs); bad = true; }
                    }
                    if (bad) continue; rec.evaluations++;
                    for (int i : prepared) { std::string si = std::to_string(i);
                        refed::Mat cx = P.dense_eigen(const_cast<CreationOperator&>(FC.getCreationOperator(i))), cc = P.dense_eigen(const_cast<AnnihilationOperator&>(FC.getAnnihilationOperator(i)));
                        if (maxabs(cx - CXc[i]) > 1e-13 || maxabs(cc - Cc[i]) > 1e-13 || const_cast<CreationOperator&>(FC.getCreationOperator(i)).getStatus() != ComputableObject::Computed || const_cast<AnnihilationOperator&>(FC.getAnnihilationOperator(i)).getStatus() != ComputableObject::Computed) { rec.violation("C10:container-history", "after this call history the container's c+_" + si + " / c_" + si + " is not the computed operator", kase + " | " + hs); bad = true; break; } }
                    if (!bad && keep) { keep->prepare(); keep->compute(); GreensFunction F(*P.S, *P.H, FC.getAnnihilationOperator(keep_i), FC.getCreationOperator(keep_i), R); F.prepare(); F.compute();
                        if (std::abs((*keep)(0) - F(0)) > 1e-12 * (1 + std::abs(F(0)))) rec.violation("C10:container-history:kept-operator", "a Green's function built from operators handed out earlier differs after later container calls", kase + " | " + hs); }
                    rec.counters["container_histories"]++;
                  } }
            }
            // CAR assembled over all blocks
            for (int i = 0; i < M; ++i) for (int j = 0; j < M; ++j) {
                refed::Mat ac = Cc[i] * CXc[j] + CXc[j] * Cc[i]; if (i == j) ac -= refed::Mat::Identity(D, D);
                if (!rec.within(maxabs(ac), 4 * tol, kase + " CAR")) { rec.violation("C10:CAR", "{c_i,c+_j} != delta_ij on the stored operators", kase); i = M; break; }
                refed::Mat aa = Cc[i] * Cc[j] + Cc[j] * Cc[i];
                if (!rec.within(maxabs(aa), 4 * tol, kase + " CAR2")) { rec.violation("C10:CAR", "{c_i,c_j} != 0 on the stored operators", kase); i = M; break; }
            }
        }
    }, clk);
    return 0;
}
} // namespace
REGISTER_CHECK("C03", run_c03);
REGISTER_CHECK("C09", run_c09);
REGISTER_CHECK("C10", run_c10);
