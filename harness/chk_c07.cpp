// C07 -- the symmetry analysis yields a sound partition of Fock space for every lattice
#include "checks.hpp"
using namespace mx;

namespace {

int run(const Args& a, Recorder& rec) {
    Clock clk; std::vector<PlanItem> plan = plan_modelspace(a, "m");
    { PlanItem it; it.shape = "S4r"; it.depth = a.thorough() ? 2 : 1; plan.push_back(it); }
    for_each_state(a, rec, plan, [&](Ctx& c0) {
        std::vector<Gen> hist = hist_gens(c0.A, c0.st.hist);
        Pipe base; base.make_lattice(c0.sh, hist); refed::Mat Href = lattice_H(*base.L, *base.IC);
        if (maxabs(Href - Href.adjoint()) > 1e-12) { rec.skipped++; return; }
        if (nontrivial_H(Href)) rec.nontrivial++;
        std::vector<Candidate> C = candidates(base);
        // analyses: default, ignored, every subset of size <= 2 of the candidate list
        struct An { SymMode mode; std::vector<int> cand; }; std::vector<An> ans; ans.push_back({ SYM_DEFAULT, {} }); ans.push_back({ SYM_IGNORE, {} });
        for (size_t i = 0; i < C.size(); ++i) ans.push_back({ SYM_CUSTOM, { (int)i } });      // singletons first: a pair's violation that a member already shows alone is not a second finding
        for (size_t i = 0; i < C.size(); ++i) for (size_t j = i + 1; j < C.size(); ++j) ans.push_back({ SYM_CUSTOM, { (int)i, (int)j } });
        std::set<int> bad_single;
        for (auto& an : ans) {
            std::string aname = mode_name(an.mode); if (an.mode == SYM_CUSTOM) { aname = "custom["; for (size_t k = 0; k < an.cand.size(); ++k) aname += (k ? "," : "") + C[an.cand[k]].name; aname += "]"; }
            std::string kase = c0.repr + " | analysis=" + aname; rec.evaluations++;
            Pipe P; P.make_lattice(c0.sh, hist);
            std::vector<Operator> ops; for (int k : an.cand) ops.push_back(C[k].op);
            try { P.make_states(an.mode, ops); }
            catch (std::exception& e) { rec.violation("C07:analysis-throws:" + std::string(mode_name(an.mode)) + ":" + c0.sh.id, std::string("the symmetry analysis fails with an exception: ") + e.what(), kase); continue; }
            refed::Mat Hs = P.symbolic_H(); if (maxabs(Hs - Href) > 1e-10) { rec.skipped++; rec.counters["skipped_c04_mismatch"]++; continue; }
            // family for keys: which candidates were ACCEPTED
            std::string fam = mode_name(an.mode);
            if (an.mode == SYM_CUSTOM) { fam = "custom["; size_t nacc = P.Symm->getOperations().size(); size_t q = 0;
                // accepted operators are stored in order of the accepted candidates
                std::vector<std::string> acc; for (int k : an.cand) { bool accepted = false; if (q < nacc) { refed::Mat a1 = Mat_of(*P.Symm->getOperations()[q], P.M), a2 = Mat_of(C[k].op, P.M); if (maxabs(a1 - a2) < 1e-12) { accepted = true; ++q; } } if (accepted) acc.push_back(C[k].name); }
                for (size_t k = 0; k < acc.size(); ++k) fam += (k ? "," : "") + acc[k]; fam += "]"; rec.counters["custom_accepted_ops"] += acc.size(); }
            Soundness s = soundness(P, Href, true);
            if (!s.ok() && an.mode == SYM_CUSTOM) {
                if (an.cand.size() == 1) bad_single.insert(an.cand[0]);
                else { bool explained = false; for (int k : an.cand) if (bad_single.count(k)) explained = true; if (explained) { rec.counters["pair_violation_explained_by_member"]++; continue; } }
            }
            if (!s.address_ok) { rec.violation("C07:address:" + fam, "Fock states are not partitioned / not recovered from their (block,position) address: " + s.why, kase); continue; }
            if (!s.h_block_diag) { rec.violation("C07:H-connects-blocks:" + fam, "the Hamiltonian has a matrix element between different blocks: " + s.why, kase); continue; }
            if (!s.ops_single_target) { rec.violation("C07:operator-multi-target:" + fam, "an elementary operator maps a block into more than one block: " + s.why, kase); continue; }
            // the listed block mappings must contain every non-zero element of the reference operators
            try {
                P.make_hamiltonian(); std::vector<int> blk = block_of_labels(P); int M = P.M, D = P.D;
                auto covers = [&](FieldOperator& op, const refed::Mat& jw, const std::string& name) {
                    op.prepare(); const FieldOperator::BlocksBimap& bm = op.getBlockMapping();
                    for (int j = 0; j < D; ++j) for (int i = 0; i < D; ++i) if (std::abs(jw(i, j)) > 1e-12) { auto it = bm.right.find(BlockNumber(blk[j])); if (it == bm.right.end() || (int)it->second != blk[i]) { rec.violation("C07:block-mapping:" + fam, name + ": getBlockMapping() misses a non-zero matrix element", kase); return; } }
                    for (auto it = bm.right.begin(); it != bm.right.end(); ++it) { bool any = false; for (int j = 0; j < D && !any; ++j) if (blk[j] == (int)it->first) for (int i = 0; i < D; ++i) if (blk[i] == (int)it->second && std::abs(jw(i, j)) > 1e-12) { any = true; break; } if (!any) { rec.violation("C07:block-mapping-spurious:" + fam, name + ": getBlockMapping() lists a block pair with no matrix element", kase); return; } }
                };
                for (int i = 0; i < M; ++i) { CreationOperator cx(*P.IC, *P.S, *P.H, i); covers(cx, refed::cdag_op(M, i), "c+_" + std::to_string(i)); AnnihilationOperator cc(*P.IC, *P.S, *P.H, i); covers(cc, refed::c_op(M, i), "c_" + std::to_string(i));
                    for (int j = 0; j < M; ++j) { QuadraticOperator q(*P.IC, *P.S, *P.H, i, j); covers(q, refed::cdag_op(M, i) * refed::c_op(M, j), "c+_" + std::to_string(i) + "c_" + std::to_string(j)); } }
            } catch (std::exception& e) { rec.violation("C07:pipeline-throws:" + fam, std::string("exception after an accepted analysis: ") + e.what(), kase); }
        }
    }, clk);
    return 0;
}
} // namespace
REGISTER_CHECK("C07", run);
