// C05 -- symbolic operator algebra faithfully represents the fermionic algebra.  histx over the expression graph.
#include "checks.hpp"
using namespace mx;

namespace {
using refed::Mat;

Mat lib_matrix_me(const Operator& O, int M) {   // through getMatrixElement(bra,ket)
    int D = 1 << M; Mat m = Mat::Zero(D, D);
    for (unsigned long k = 0; k < (unsigned long)D; ++k) for (unsigned long b = 0; b < (unsigned long)D; ++b) m(b, k) = cd(O.getMatrixElement(FockState(M, b), FockState(M, k)));
    return m;
}
Mat lib_matrix_act(const Operator& O, int M) {  // through actRight(ket)
    int D = 1 << M; Mat m = Mat::Zero(D, D);
    for (unsigned long k = 0; k < (unsigned long)D; ++k) { std::map<FockState, MelemType> r = O.actRight(FockState(M, k)); for (auto it = r.begin(); it != r.end(); ++it) m(it->first.to_ulong(), k) += cd(it->second); }
    return m;
}
struct Node { Operator op; Mat ref; std::string expr; int depth; };

int run(const Args& a, Recorder& rec) {
    Clock clk; long idx = 0; auto mine = [&]() { return (idx++ % a.nshards) == a.shard; };
    std::vector<double> scal = { -1, 0.5, 2, 0 }, addc = { 1, -0.5, 0 };
    for (int M = 2; M <= 3; ++M) {
        int maxdepth = (M == 2) ? (a.thorough() ? 3 : 2) : (a.thorough() ? 2 : 1);
        int D = 1 << M; std::vector<Node> all; std::unordered_map<std::string,int> seen; std::vector<int> level_end;
        auto add_node = [&](const Operator& op, const Mat& ref, const std::string& expr, int depth, bool own) -> bool {
            // invariant: both matrix read-outs equal the reference expression
            if (own && a.want(expr)) {
                marker("C05 " + expr); rec.evaluations++;
                double tol = 1e-12 * (1 + maxabs(ref));
                if (maxabs(lib_matrix_me(op, M) - ref) > tol) rec.violation("C05:matrix:getMatrixElement", "matrix of a symbolic expression (getMatrixElement) differs from the Jordan-Wigner expression", "M=" + std::to_string(M) + " " + expr);
                if (maxabs(lib_matrix_act(op, M) - ref) > tol) rec.violation("C05:matrix:actRight", "matrix of a symbolic expression (actRight) differs from the Jordan-Wigner expression", "M=" + std::to_string(M) + " " + expr);
            }
            std::string key = mat_key_full(ref);
            if (seen.count(key)) {
                // the same operator reached through a different expression: the library must consider the two equal
                if (own && a.want(expr)) { const Node& e = all[seen[key]]; rec.evaluations++;
                    if (!(op == e.op) || !(e.op == op)) rec.violation("C05:equality:same-operator-different-expression", "two expressions with the same Fock matrix compare unequal", "M=" + std::to_string(M) + " " + expr + "  vs  " + e.expr); }
                return false;
            }
            seen[key] = all.size(); Node n; n.op = op; n.ref = ref; n.expr = expr; n.depth = depth; all.push_back(n); return true;
        };
        for (int i = 0; i < M; ++i) { add_node(OperatorPresets::c(i), refed::c_op(M, i), "c" + std::to_string(i), 0, true); add_node(OperatorPresets::c_dag(i), refed::cdag_op(M, i), "c+" + std::to_string(i), 0, true); }
        level_end.push_back(all.size());
        for (int d = 1; d <= maxdepth; ++d) {
            size_t lo = (d == 1) ? 0 : level_end[d - 2], hi = level_end[d - 1];     // states created at depth d-1
            size_t small_hi = level_end[std::min<int>(d - 1, 1)];                     // partner: states of depth <= 1
            for (size_t x = lo; x < hi; ++x) {
                bool own = mine();
                // unary
                for (double s : scal) { rec.enum_transitions++; Node& A = all[x]; add_node(A.op * MelemType(s), Mat(A.ref * s), "(" + A.expr + ")*" + std::to_string(s), d, own); }
                for (double s : addc) { rec.enum_transitions++; Node& A = all[x]; add_node(A.op + MelemType(s), Mat(A.ref + s * Mat::Identity(D, D)), "(" + A.expr + ")+" + std::to_string(s), d, own); }
                { rec.enum_transitions++; Node& A = all[x]; add_node(-A.op, Mat(-A.ref), "-(" + A.expr + ")", d, own); }
                for (double s : addc) { rec.enum_transitions += 3; Node A = all[x];
                    add_node(A.op - MelemType(s), Mat(A.ref - s * Mat::Identity(D, D)), "(" + A.expr + ")-" + std::to_string(s), d, own);
                    add_node(MelemType(s) - A.op, Mat(s * Mat::Identity(D, D) - A.ref), std::to_string(s) + "-(" + A.expr + ")", d, own);
                    { Operator t = A.op; t -= MelemType(s); t += MelemType(2 * s); t -= MelemType(s); add_node(t, A.ref, "(" + A.expr + ") -=" + std::to_string(s) + " +=" + std::to_string(2 * s) + " -=" + std::to_string(s), d, own); } }
                for (size_t y = 0; y < small_hi; ++y) for (int order = 0; order < 2; ++order) {
                    if (order == 1 && x < small_hi) continue;      // both orders already covered when x itself is a partner
                    Operator A = order ? all[y].op : all[x].op, B = order ? all[x].op : all[y].op; Mat a_ = order ? all[y].ref : all[x].ref, b_ = order ? all[x].ref : all[y].ref;
                    std::string ea = order ? all[y].expr : all[x].expr, eb = order ? all[x].expr : all[y].expr;
                    rec.enum_transitions += 5;
                    add_node(A * B, Mat(a_ * b_), "(" + ea + ")*(" + eb + ")", d, own);
                    add_node(A + B, Mat(a_ + b_), "(" + ea + ")+(" + eb + ")", d, own);
                    add_node(A - B, Mat(a_ - b_), "(" + ea + ")-(" + eb + ")", d, own);
                    add_node(A.getCommutator(B), Mat(a_ * b_ - b_ * a_), "[" + ea + "," + eb + "]", d, own);
                    add_node(A.getAntiCommutator(B), Mat(a_ * b_ + b_ * a_), "{" + ea + "," + eb + "}", d, own);
                }
            }
            level_end.push_back(all.size());
            if (clk.s() > a.deadline) { rec.exhaustive = false; break; }
        }
        rec.enum_states += all.size();
        rec.sample("M=" + std::to_string(M) + ": " + std::to_string(all.size()) + " distinct operators, e.g. " + all[all.size() / 2].expr + " ; " + all.back().expr);
        size_t n1 = level_end[std::min<size_t>(1, level_end.size() - 1)];
        // equality / commutation tests agree with matrix equality: all pairs (depth<=1 state, any state)
        for (size_t x = 0; x < n1; ++x) for (size_t y = 0; y < all.size(); ++y) {
            if (!mine()) continue;
            std::string kase = "M=" + std::to_string(M) + " (" + all[x].expr + ") vs (" + all[y].expr + ")";
            if (!a.want(kase)) continue;
            marker("C05 " + kase); rec.evaluations++; rec.states++;
            bool meq = maxabs(all[x].ref - all[y].ref) < 1e-12;
            bool leq = (all[x].op == all[y].op), leq2 = (all[y].op == all[x].op);
            if (leq != meq || leq2 != meq) rec.violation(std::string("C05:equality:") + (meq ? "equal-reported-different" : "different-reported-equal"), "operator== disagrees with matrix equality", kase);
            if (y < n1 || all[y].depth <= 1) {
                bool mcomm = maxabs(all[x].ref * all[y].ref - all[y].ref * all[x].ref) < 1e-12;
                bool lcomm = all[x].op.commutes(all[y].op);
                if (lcomm != mcomm) rec.violation(std::string("C05:commutes:") + (mcomm ? "commuting-reported-not" : "noncommuting-reported-commuting"), "Operator::commutes disagrees with the matrix commutator", kase);
            }
        }
        // self-comparison of every state (x == x) and against a rebuilt zero
        for (size_t y = 0; y < all.size(); ++y) { if (!mine()) continue; rec.evaluations++; if (!(all[y].op == all[y].op)) rec.violation("C05:equality:self", "an operator is not equal to itself", "M=" + std::to_string(M) + " " + all[y].expr); }
        // associativity on all triples of depth<=1 states
        size_t na = std::min<size_t>(n1, a.thorough() ? 80 : 40);
        for (size_t x = 0; x < na; ++x) for (size_t y = 0; y < na; ++y) { if (!mine()) continue; for (size_t z = 0; z < na; ++z) {
            rec.evaluations++;
            Operator l = (all[x].op * all[y].op) * all[z].op, r = all[x].op * (all[y].op * all[z].op);
            Mat ref = all[x].ref * all[y].ref * all[z].ref;
            if (maxabs(lib_matrix_act(l, M) - ref) > 1e-11 * (1 + maxabs(ref)) || maxabs(lib_matrix_act(r, M) - ref) > 1e-11 * (1 + maxabs(ref))) rec.violation("C05:associativity", "(AB)C or A(BC) differs from the matrix product", "M=" + std::to_string(M) + " A=" + all[x].expr + " B=" + all[y].expr + " C=" + all[z].expr);
        } }
        // CAR, literally
        if (mine()) for (int i = 0; i < M; ++i) for (int j = 0; j < M; ++j) {
            rec.evaluations++;
            Operator ac = OperatorPresets::c(i).getAntiCommutator(OperatorPresets::c_dag(j)); Mat m = lib_matrix_act(ac, M);
            Mat ex = (i == j) ? Mat(Mat::Identity(D, D)) : Mat(Mat::Zero(D, D));
            if (maxabs(m - ex) > 1e-14) rec.violation("C05:CAR", "{c_i,c+_j} != delta_ij", "M=" + std::to_string(M) + " i=" + std::to_string(i) + " j=" + std::to_string(j));
            Operator aa = OperatorPresets::c(i).getAntiCommutator(OperatorPresets::c(j));
            if (maxabs(lib_matrix_act(aa, M)) > 1e-14 || !aa.isEmpty()) rec.violation("C05:CAR", "{c_i,c_j} != 0", "M=" + std::to_string(M) + " i=" + std::to_string(i) + " j=" + std::to_string(j));
        }
        // all monomials in every order of factors
        int maxlen = (M == 2) ? 6 : (a.thorough() ? 5 : 4); int ng = 2 * M;
        for (int len = 1; len <= maxlen; ++len) { long cnt = 1; for (int k = 0; k < len; ++k) cnt *= ng;
            for (long t = 0; t < cnt; ++t) {
                if (!mine()) continue;
                long tt = t; Operator op; Mat ref = Mat::Identity(D, D); std::string expr; std::vector<std::pair<bool,int> > seq;
                for (int k = 0; k < len; ++k) { int g = tt % ng; tt /= ng; bool cr = g >= M; int i = g % M; Operator f = cr ? OperatorPresets::c_dag(i) : OperatorPresets::c(i); if (k == 0) op = f; else op = op * f; seq.push_back(std::make_pair(cr, i)); expr += (cr ? "c+" : "c") + std::to_string(i) + " "; }
                ref = refed::monomial(M, seq); rec.evaluations++; rec.states++; rec.enum_transitions++;
                std::string kase = "M=" + std::to_string(M) + " monomial " + expr; if (!a.want(kase)) continue;
                if (len >= 3) rec.nontrivial++;
                if (maxabs(lib_matrix_act(op, M) - ref) > 1e-13) rec.violation("C05:monomial:len" + std::to_string(len), "normal ordering of a product of elementary operators gives a different matrix", kase);
            } }
    }
    // specialised N and Sz operators act like their polynomial forms
    for (int M = 1; M <= 4; ++M) {
        int D = 1 << M;
        if (mine()) {
            OperatorPresets::N Nop(M); Mat ref = Mat::Zero(D, D); for (int i = 0; i < M; ++i) ref += refed::n_op(M, i);
            const Operator& base = Nop; rec.evaluations++;
            Mat m1 = Mat::Zero(D, D), m2 = Mat::Zero(D, D), m3 = Mat::Zero(D, D);
            for (unsigned long k = 0; k < (unsigned long)D; ++k) { FockState ket(M, k); m3(k, k) = cd(Nop.getMatrixElement(ket)); std::map<FockState, MelemType> r = Nop.actRight(ket); for (auto& kv : r) m2(kv.first.to_ulong(), k) += cd(kv.second); for (unsigned long b = 0; b < (unsigned long)D; ++b) m1(b, k) = cd(Nop.getMatrixElement(FockState(M, b), ket)); }
            Mat generic = lib_matrix_act(Operator(base), M);
            if (maxabs(m1 - ref) > 1e-14 || maxabs(m2 - ref) > 1e-14 || maxabs(m3 - ref) > 1e-14 || maxabs(generic - ref) > 1e-14) rec.violation("C05:N-operator", "OperatorPresets::N does not act like sum_i n_i", "M=" + std::to_string(M));
        }
        if (M % 2 == 0) for (unsigned long mask = 0; mask < (unsigned long)D; ++mask) if (__builtin_popcountl(mask) == M / 2) {
            if (!mine()) continue;
            std::vector<ParticleIndex> ups, dns; for (int i = 0; i < M; ++i) ((mask >> i) & 1 ? ups : dns).push_back(i);
            Mat ref = Mat::Zero(D, D); for (auto i : ups) ref += 0.5 * refed::n_op(M, i); for (auto i : dns) ref -= 0.5 * refed::n_op(M, i);
            for (int ctor = 0; ctor < 2; ++ctor) {
                rec.evaluations++;
                std::unique_ptr<OperatorPresets::Sz> S(ctor ? new OperatorPresets::Sz(ups, dns) : new OperatorPresets::Sz(M, ups));
                Mat m1 = Mat::Zero(D, D), m2 = Mat::Zero(D, D), m3 = Mat::Zero(D, D);
                for (unsigned long k = 0; k < (unsigned long)D; ++k) { FockState ket(M, k); m3(k, k) = cd(S->getMatrixElement(ket)); std::map<FockState, MelemType> r = S->actRight(ket); for (auto& kv : r) m2(kv.first.to_ulong(), k) += cd(kv.second); for (unsigned long b = 0; b < (unsigned long)D; ++b) m1(b, k) = cd(S->getMatrixElement(FockState(M, b), ket)); }
                Mat generic = lib_matrix_act(Operator(*S), M);
                if (maxabs(m1 - ref) > 1e-14 || maxabs(m2 - ref) > 1e-14 || maxabs(m3 - ref) > 1e-14 || maxabs(generic - ref) > 1e-14) rec.violation("C05:Sz-operator", "OperatorPresets::Sz does not act like 1/2 sum (n_up - n_down)", "M=" + std::to_string(M) + " upmask=" + std::to_string(mask) + " ctor=" + std::to_string(ctor));
            }
        }
    }
    // S_z built over a SUBSET of the modes (the local S_z of a site): every assignment of each mode to {up list, down list, neither}, every Fock state
    for (int M = 2; M <= 4; ++M) { int D = 1 << M; long cnt = 1; for (int k = 0; k < M; ++k) cnt *= 3;
        for (long code = 0; code < cnt; ++code) { if (!mine()) continue; std::vector<ParticleIndex> ups, dns; long cdx = code; for (int i = 0; i < M; ++i) { int r = cdx % 3; cdx /= 3; if (r == 0) ups.push_back(i); else if (r == 1) dns.push_back(i); }
            if (ups.empty() || ups.size() != dns.size()) continue; rec.evaluations++;      // the constructor demands lists of equal length
            OperatorPresets::Sz S(ups, dns); Mat ref = Mat::Zero(D, D); for (auto i : ups) ref += 0.5 * refed::n_op(M, i); for (auto i : dns) ref -= 0.5 * refed::n_op(M, i);
            Mat m2 = Mat::Zero(D, D), m3 = Mat::Zero(D, D);
            for (unsigned long k = 0; k < (unsigned long)D; ++k) { FockState ket(M, k); m3(k, k) = cd(S.getMatrixElement(ket)); std::map<FockState, MelemType> r = S.actRight(ket); for (auto& kv : r) m2(kv.first.to_ulong(), k) += cd(kv.second); }
            const Operator& base = S; Mat generic = lib_matrix_act(Operator(base), M);
            if (maxabs(m2 - ref) > 1e-14 || maxabs(m3 - ref) > 1e-14 || maxabs(generic - ref) > 1e-14) { std::string d; for (auto i : ups) d += "u" + std::to_string(i); for (auto i : dns) d += "d" + std::to_string(i); rec.violation("C05:Sz-operator:partial", "OperatorPresets::Sz over a subset of the modes does not act like sum 1/2 n_up - 1/2 n_down", "M=" + std::to_string(M) + " Sz(" + d + ")"); } } }
    // wide index spaces: the same algebra on 64 single-particle modes (no matrices: the action on Fock states is compared with a
    // bit-mask Jordan-Wigner reference) -- all monomials of length <= 3 over the modes {0,1,30,31,32,33,62,63} x all occupations of
    // those modes, on an empty and on a completely filled background (word boundaries of the bit arithmetic at 31/32 and 63)
    {
        const int W = 8, NB = 64; int modes[W] = { 0, 1, 30, 31, 32, 33, 62, 63 }; int maxlen = a.thorough() ? 4 : 3, ng = 2 * W; unsigned long allw = 0; for (int k = 0; k < W; ++k) allw |= 1ul << modes[k];
        for (int len = 1; len <= maxlen; ++len) { long cnt = 1; for (int k = 0; k < len; ++k) cnt *= ng;
            for (long t = 0; t < cnt; ++t) {
                if (!mine()) continue;
                long tt = t; Operator op; std::string expr; std::vector<std::pair<bool,int> > seq;
                for (int k = 0; k < len; ++k) { int g = tt % ng; tt /= ng; bool cr = g >= W; int i = modes[g % W]; Operator f = cr ? OperatorPresets::c_dag(i) : OperatorPresets::c(i); if (k == 0) op = f; else op = op * f; seq.push_back(std::make_pair(cr, i)); expr += std::string(k ? "*" : "") + (cr ? "c+" : "c") + std::to_string(i); }
                std::string kase = "64 modes, monomial " + expr; if (!a.want(kase)) continue;
                marker("C05 " + kase); rec.states++; rec.enum_transitions++; if (len >= 3) rec.nontrivial++;
                bool bad = false;
                for (int bg = 0; bg < 2 && !bad; ++bg) for (unsigned long occ = 0; occ < (1ul << W) && !bad; ++occ) {
                    unsigned long ket = bg ? ~allw : 0ul; for (int k = 0; k < W; ++k) if ((occ >> k) & 1) ket |= 1ul << modes[k];
                    // reference: factors act right to left; c / c+ on mode i give the sign (-1)^(number of occupied modes below i)
                    unsigned long x = ket; int sign = 1; bool zero = false;
                    for (int k = len - 1; k >= 0 && !zero; --k) { int i = seq[k].second; bool occd = (x >> i) & 1; if (seq[k].first == occd) { zero = true; break; } unsigned long below = (i == 0) ? 0ul : (x & ((i >= 64) ? ~0ul : ((1ul << i) - 1))); if (__builtin_popcountl(below) & 1) sign = -sign; x ^= 1ul << i; }
                    rec.evaluations++;
                    std::map<FockState, MelemType> r = op.actRight(FockState(NB, ket)); cd got = 0; bool other = false;
                    for (auto& kv : r) { if (std::abs(cd(kv.second)) < 1e-14) continue; if (!zero && kv.first.to_ulong() == x) got += cd(kv.second); else other = true; }
                    if (other || std::abs(got - (zero ? cd(0) : cd(sign))) > 1e-13) { char kb[32]; snprintf(kb, sizeof kb, "%016lx", ket); rec.violation("C05:wide:len" + std::to_string(len), "the action of a product of elementary operators on a Fock state of 64 modes differs from the Jordan-Wigner action", kase + " on |" + kb + ">"); bad = true; }
                }
            } }
    }
    rec.bound = "expression graph: M=2 depth " + std::string(a.thorough() ? "3" : "2") + ", M=3 depth " + (a.thorough() ? "2" : "1") + "; 64-mode monomials up to length " + (a.thorough() ? "4" : "3") + " over 8 boundary modes x 512 kets; all monomials up to length 6 (M=2) / " + (a.thorough() ? "5" : "4") + " (M=3); N, Sz for M<=4";
    return 0;
}
} // namespace
REGISTER_CHECK("C05", run);
