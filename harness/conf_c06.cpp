// conformance driver for C06 on the REAL MPI: the same per-rank workflow as the virtual-MPI exploration, under mpiexec.
// Every rank prints its dump; bin/conformance06.py compares every rank of an np>1 run with the np=1 run and treats a
// timeout as non-termination.
#include "c06_workflow.hpp"
#include <cstdio>
namespace vmpi {       // the workflow's hooks into the virtual runtime do nothing here
uint64_t hash_bytes(const void* p, size_t n, uint64_t seed) { const unsigned char* b = (const unsigned char*)p; uint64_t h = seed; for (size_t i = 0; i < n; ++i) { h ^= b[i]; h *= 1099511628211ull; } return h; }
void checkpoint(uint64_t) {} void note(uint64_t) {} int my_rank() { return -1; } void yield_point(const char*, long) {} void fail(const std::string&) {}
}
int main(int argc, char** argv) {
    boost::mpi::environment env(argc, argv); boost::mpi::communicator world; int rank = world.rank();
    std::map<std::string,long> p; const char* keys[] = { "model", "phase", "comps", "clear", "split" }; for (int i = 0; i < 5; ++i) p[keys[i]] = atol(argv[1 + i]); p["P"] = world.size(); p["rdv"] = 0; p["omp"] = 1; p["ompord"] = 0;
    c06::Dump d; std::string err;
    { mx::Quiet q; try { c06::workflow(rank, p, d, false); } catch (std::exception& e) { err = e.what(); } }
    for (int r = 0; r < world.size(); ++r) { world.barrier(); if (r == rank) { if (!err.empty()) printf("THROW %d %s\n", rank, err.c_str()); for (auto& kv : d) { printf("DUMP %d %s", rank, kv.first.c_str()); for (double v : kv.second) printf(" %.12g", v); printf("\n"); } printf("DONE %d\n", rank); fflush(stdout); } }
    return 0;
}
