#pragma once
#include "../engines/vmpi/explore.hpp"
#include "../engines/harness.hpp"
namespace mx { typedef int (*VxFn)(const Args&, Recorder&); }
std::map<std::string, mx::VxFn>& vx_registry();
namespace mx {
struct VxReg { VxReg(const char* n, VxFn f) { vx_registry()[n] = f; } };
#define REGISTER_VX(name, fn) static mx::VxReg vxreg_##fn(name, fn)

// a vmpi configuration = harness name + integer parameters; replay files carry it
struct VxConfig { std::string harness; std::map<std::string,long> p; std::string str() const { std::string s = harness; for (auto& kv : p) s += " " + kv.first + "=" + std::to_string(kv.second); return s; } };
struct VxHarness { vmpi::RankMain body; vmpi::Oracle oracle; vmpi::Reset reset; vmpi::Config mpi; };
typedef VxHarness (*VxFactory)(const VxConfig&);
std::map<std::string, VxFactory>& vx_factories();
struct VxFacReg { VxFacReg(const char* n, VxFactory f) { vx_factories()[n] = f; } };

int vx_replay(const std::string& file);
// explore one configuration; records coverage and violations (with replay files) into rec
vmpi::ExploreResult vx_explore(const Args& a, Recorder& rec, const VxConfig& cfg, int bound, double deadline_s, long max_exec, const std::string& property);
const char* vx_kind_name(int k);
}
