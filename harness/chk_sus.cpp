// C14 (dynamical susceptibility), C19 (block truncation), C08 (observables invariant under the partition)
#include "checks.hpp"
#include <array>
using namespace mx;

namespace {

std::vector<std::array<int,4> > quad_tuples(int M, bool all) {
    std::vector<std::array<int,4> > t;
    for (int a = 0; a < M; ++a) for (int b = 0; b < M; ++b) for (int c = 0; c < M; ++c) for (int d = 0; d < M; ++d) {
        if (all) { t.push_back({ a, b, c, d }); continue; }
        // representatives: density-density, spin-flip-like (A changes the quantum numbers, B restores them), and a few generic ones
        if ((a == b && c == d) || (a == d && b == c) || ((a + 2 * b + 3 * c + 5 * d) % 7 == 0)) t.push_back({ a, b, c, d });
    }
    return t;
}

// allowance for terms the library documents it drops (|residue| <= 1e-8) : generous, basis independent
double drop_allow(int D, double mindist) { return D * D * 2e-8 / std::max(mindist, 1e-8); }


// ---- the three ways of supplying <A>,<B> as a call history: BFS over histories of two EnsembleAverage objects shared by two
//      Susceptibility objects (prepare() any number of times, by the user or inside subtractDisconnected; the averages handed to a
//      second susceptibility; the other overloads in between).  In every state: an average that was prepared equals <A>; a
//      susceptibility with subtraction enabled differs from the plain one by beta<A><B> at W_0, by <A><B> in of_tau, by nothing at W_1.
void averages_histories(const Args& a, Recorder& rec, Clock& clk) {
    std::vector<PlanItem> plan; for (const char* sid : { "S1", "S2", "S4" }) { PlanItem it; it.shape = sid; it.depth = 1; it.opts.rich = false; plan.push_back(it); }
    int maxdepth = a.thorough() ? 5 : 4; double beta = 3;
    for_each_state(a, rec, plan, [&](Ctx& c) {
        if (stage_states(c, rec, SYM_DEFAULT, 0, false) != ST_OK) return;
        Pipe& P = c.P; int M = P.M; P.make_hamiltonian(); P.make_rho(beta); refed::Spectrum sp = refed::diagonalize(c.Href, beta);
        std::vector<std::array<int,4> > pairs = { {{0, 0, 0, 0}}, {{0, 0, M - 1, M - 1}}, {{0, M - 1, M - 1, 0}} };
        for (auto& t : pairs) {
            QuadraticOperator QA(*P.IC, *P.S, *P.H, t[0], t[1]), QB(*P.IC, *P.S, *P.H, t[2], t[3]); QA.prepare(); QA.compute(); QB.prepare(); QB.compute();
            cd avA = refed::thermal_avg(sp, refed::to_eigenbasis(sp, refed::cdag_op(M, t[0]) * refed::c_op(M, t[1]))), avB = refed::thermal_avg(sp, refed::to_eigenbasis(sp, refed::cdag_op(M, t[2]) * refed::c_op(M, t[3])));
            Susceptibility X0(*P.S, *P.H, QA, QB, *P.rho); X0.prepare(); X0.compute(); cd p0 = X0(0), p1 = X0(1), pt = X0.of_tau(beta / 3);
            // copies (both classes declare copy constructors): a copy, and a copy on which prepare()/compute() are called again, give the original's values
            { Susceptibility K1(X0); Susceptibility K2(X0); K2.prepare(); K2.compute(); Susceptibility Pp(*P.S, *P.H, QA, QB, *P.rho); Pp.prepare(); Susceptibility K3(Pp); K3.compute();
              Susceptibility* ks[3] = { &K1, &K2, &K3 }; const char* kn[3] = { "copy", "copy+prepare+compute", "copy-of-prepared+compute" };
              for (int q = 0; q < 3; ++q) { rec.evaluations++; if (std::abs((*ks[q])(0) - p0) > 1e-12 * (1 + std::abs(p0)) || std::abs((*ks[q])(1) - p1) > 1e-12 * (1 + std::abs(p1)) || std::abs(ks[q]->of_tau(beta / 3) - pt) > 1e-12 * (1 + std::abs(pt))) rec.violation(std::string("C14:copy:susceptibility:") + kn[q], "a copied susceptibility returns other values than its original", c.repr + " | chi(" + std::to_string(t[0]) + std::to_string(t[1]) + "," + std::to_string(t[2]) + std::to_string(t[3]) + ") beta=3"); }
              EnsembleAverage E1(*P.S, *P.H, QA, *P.rho); E1.prepare(); EnsembleAverage E2(E1); EnsembleAverage E3(E1); E3.prepare(); EnsembleAverage E0(*P.S, *P.H, QA, *P.rho); EnsembleAverage E4(E0); E4.prepare();
              EnsembleAverage* es[3] = { &E2, &E3, &E4 }; const char* en[3] = { "copy", "copy+prepare", "copy-of-unprepared+prepare" };
              for (int q = 0; q < 3; ++q) { rec.evaluations++; if (std::abs(es[q]->getResult() - avA) > 1e-9 * (1 + std::abs(avA)) + 1e-10) rec.violation(std::string("C14:copy:ensemble-average:") + en[q], "a copied ensemble average differs from <A>", c.repr + " | <c+_" + std::to_string(t[0]) + " c_" + std::to_string(t[1]) + "> beta=3"); } }
            const char* names[6] = { "EA.prepare()", "EB.prepare()", "X1.subtractDisconnected(EA,EB)", "X2.subtractDisconnected(EA,EB)", "X1.subtractDisconnected()", "X2.subtractDisconnected(<A>,<B>)" };
            std::string base = c.repr + " | chi(" + std::to_string(t[0]) + std::to_string(t[1]) + "," + std::to_string(t[2]) + std::to_string(t[3]) + ") beta=3 | averages: ";
            auto replay = [&](const std::vector<int>& h, std::string& key) {
                EnsembleAverage EA(*P.S, *P.H, QA, *P.rho), EB(*P.S, *P.H, QB, *P.rho); bool pa = false, pb = false, s1 = false, s2 = false;
                Susceptibility X1(*P.S, *P.H, QA, QB, *P.rho), X2(*P.S, *P.H, QA, QB, *P.rho); X1.prepare(); X1.compute(); X2.prepare(); X2.compute();
                std::string hr = base; for (size_t k = 0; k < h.size(); ++k) { hr += (k ? ";" : ""); hr += names[h[k]]; }
                for (int o : h) { switch (o) { case 0: EA.prepare(); pa = true; break; case 1: EB.prepare(); pb = true; break; case 2: X1.subtractDisconnected(EA, EB); pa = pb = s1 = true; break;
                    case 3: X2.subtractDisconnected(EA, EB); pa = pb = s2 = true; break; case 4: X1.subtractDisconnected(); s1 = true; break; case 5: X2.subtractDisconnected(ComplexType(avA), ComplexType(avB)); s2 = true; break; } }
                rec.evaluations++; double sc = 1 + std::abs(avA) + std::abs(avB), tol = 1e-9 * sc + 1e-10;
                if (pa && std::abs(EA.getResult() - avA) > tol) rec.violation("C14:average-history:ensemble-average", "an ensemble average changes with the number of prepare() calls / with being handed to subtractDisconnected", hr + " <A>");
                if (pb && std::abs(EB.getResult() - avB) > tol) rec.violation("C14:average-history:ensemble-average", "an ensemble average changes with the number of prepare() calls / with being handed to subtractDisconnected", hr + " <B>");
                Susceptibility* Xs[2] = { &X1, &X2 }; bool sub[2] = { s1, s2 };
                for (int k = 0; k < 2; ++k) { cd d0 = sub[k] ? avA * avB * beta : cd(0), dt = sub[k] ? avA * avB : cd(0); double tl = 1e-8 * (1 + std::abs(d0) + std::abs(p0));
                    if (std::abs((p0 - (*Xs[k])(0)) - d0) > tl) rec.violation("C14:average-history:static", "the subtracted term at W_0 is not beta<A><B> after this call history", hr + " X" + std::to_string(k + 1));
                    if (std::abs(p1 - (*Xs[k])(1)) > tl) rec.violation("C14:average-history:dynamic", "subtraction changes a finite-frequency value after this call history", hr + " X" + std::to_string(k + 1));
                    if (std::abs((pt - Xs[k]->of_tau(beta / 3)) - dt) > tl) rec.violation("C14:average-history:of_tau", "the subtracted term in of_tau is not <A><B> after this call history", hr + " X" + std::to_string(k + 1)); }
                std::ostringstream ks; ks.precision(12); ks << EA.getStatus() << EA.getResult() << EB.getStatus() << EB.getResult() << X1.SubtractDisconnected << X1.ave_A << X1.ave_B << X2.SubtractDisconnected << X2.ave_A << X2.ave_B; key = ks.str();
            };
            std::unordered_set<std::string> seen; std::vector<std::vector<int> > frontier(1), next; { std::string k; replay(frontier[0], k); seen.insert(k); rec.counters["average_states"]++; }
            for (int d = 0; d < maxdepth; ++d) { next.clear();
                for (auto& h : frontier) for (int o = 0; o < 6; ++o) { std::vector<int> h2 = h; h2.push_back(o); std::string k; replay(h2, k); rec.counters["average_transitions"]++; if (seen.insert(k).second) { next.push_back(h2); rec.counters["average_states"]++; } }
                frontier.swap(next); }
        }
    }, clk);
}

int run_c14(const Args& a, Recorder& rec) {
    Clock clk; std::vector<double> betas = { 1, 10, 1e3 }; if (a.thorough()) { betas.push_back(40); betas.push_back(200); }      // 1e3: beta x level spacing beyond the exp() overflow threshold
    std::vector<PlanItem> plan = plan_modelspace(a, "g");
    for_each_state(a, rec, plan, [&](Ctx& c) {
        if (stage_states(c, rec, SYM_DEFAULT, 0, true) != ST_OK) return;
        Pipe& P = c.P; int M = P.M, D = P.D; P.make_hamiltonian();
        if (nontrivial_H(c.Href)) rec.nontrivial++;
        std::vector<std::array<int,4> > tups = quad_tuples(M, M <= 3 || a.thorough());
        std::vector<std::unique_ptr<QuadraticOperator> > Q(M * M);
        for (int i = 0; i < M; ++i) for (int j = 0; j < M; ++j) { Q[i * M + j].reset(new QuadraticOperator(*P.IC, *P.S, *P.H, i, j)); Q[i * M + j]->prepare(); Q[i * M + j]->compute(); }
        for (double beta : betas) {
            P.make_rho(beta); refed::Spectrum sp = refed::diagonalize(c.Href, beta);
            std::vector<refed::Mat> rq(M * M); for (int i = 0; i < M; ++i) for (int j = 0; j < M; ++j) rq[i * M + j] = refed::to_eigenbasis(sp, refed::cdag_op(M, i) * refed::c_op(M, j));
            // smallest non-zero level spacing (distance of the static point to the nearest pole)
            double minP = 1e300; for (int x = 0; x < D; ++x) for (int y = 0; y < D; ++y) { double d = std::abs(sp.E(x) - sp.E(y)); if (d > 1e-6) minP = std::min(minP, d); }
            for (auto& t : tups) {
                int ia = t[0], ib = t[1], ic = t[2], id = t[3]; const refed::Mat& RA = rq[ia * M + ib]; const refed::Mat& RB = rq[ic * M + id];
                std::string kase = c.repr + " | beta=" + std::to_string(beta) + " chi(" + std::to_string(ia) + std::to_string(ib) + "," + std::to_string(ic) + std::to_string(id) + ")";
                cd avA = refed::thermal_avg(sp, RA), avB = refed::thermal_avg(sp, RB);
                Susceptibility X0(*P.S, *P.H, *Q[ia * M + ib], *Q[ic * M + id], *P.rho); X0.prepare(); X0.compute();
                Susceptibility X1(*P.S, *P.H, *Q[ia * M + ib], *Q[ic * M + id], *P.rho); X1.prepare(); X1.compute(); X1.subtractDisconnected();
                Susceptibility X2(*P.S, *P.H, *Q[ia * M + ib], *Q[ic * M + id], *P.rho); X2.prepare(); X2.compute(); X2.subtractDisconnected(ComplexType(avA), ComplexType(avB));
                Susceptibility X3(*P.S, *P.H, *Q[ia * M + ib], *Q[ic * M + id], *P.rho); X3.prepare(); X3.compute();
                { EnsembleAverage EA(*P.S, *P.H, *Q[ia * M + ib], *P.rho), EB(*P.S, *P.H, *Q[ic * M + id], *P.rho); X3.subtractDisconnected(EA, EB); }
                for (long n = -2; n <= 2; ++n) {
                    rec.evaluations++;
                    cd W = refed::matsubara_b(beta, n); refed::Val ref = refed::chi2(sp, RA, RB, W);
                    double dist = (n == 0) ? minP : std::abs(W.imag()) ; double tol = 1e-7 * ref.S + drop_allow(D, dist) * 0 + D * D * 2e-8 / std::max(dist, 1e-3) + 1e-11;
                    cd v0 = X0(n), vz = X0(W);
                    std::string kn = kase + " n=" + std::to_string(n);
                    if (std::abs(v0 - vz) > 1e-10 * (1 + std::abs(v0))) rec.violation("C14:matsubara-number", "operator()(long n) differs from operator()(i 2 pi n/beta)", kn);
                    if (!rec.within(std::abs(v0 - ref.v), tol, kn)) rec.violation(std::string("C14:value:") + (n == 0 ? "static" : "dynamic"), "susceptibility differs from its definition: lib=(" + std::to_string(v0.real()) + "," + std::to_string(v0.imag()) + ") ref=(" + std::to_string(ref.v.real()) + "," + std::to_string(ref.v.imag()) + ")", kn);
                    cd disc = (n == 0) ? beta * avA * avB : cd(0);
                    Susceptibility* Xs[3] = { &X1, &X2, &X3 }; const char* nm[3] = { "subtractDisconnected()", "subtractDisconnected(aveA,aveB)", "subtractDisconnected(EA,EB)" };
                    for (int k = 0; k < 3; ++k) { cd v = (*Xs[k])(n);
                        if (std::abs((v0 - v) - disc) > 1e-8 * (1 + std::abs(disc)) + 1e-10 * std::abs(v0)) rec.violation(std::string("C14:disconnected:") + nm[k] + (n == 0 ? ":static" : ":dynamic"), "with subtraction the result must differ by beta<A><B> at n=0 only: difference=(" + std::to_string((v0 - v).real()) + "," + std::to_string((v0 - v).imag()) + ") expected=(" + std::to_string(disc.real()) + "," + std::to_string(disc.imag()) + ")", kn); }
                }
                for (double tau : { 0.0, beta / 4, beta / 2, 3 * beta / 4, beta }) {
                    rec.evaluations++;
                    refed::Val ref = refed::corr_tau(sp, RA, RB, tau); cd v0 = X0.of_tau(tau), v1 = X1.of_tau(tau);
                    double tol = 1e-7 * ref.S + D * D * 2e-8 + 1e-8 * beta * ref.S + 1e-11; std::string kt = kase + " tau=" + std::to_string(tau);
                    if (!rec.within(std::abs(v0 - ref.v), tol, kt)) rec.violation("C14:of_tau", "imaginary-time susceptibility differs from <A(tau)B(0)>: lib=" + std::to_string(v0.real()) + " ref=" + std::to_string(ref.v.real()), kt);
                    if (std::abs((v0 - v1) - avA * avB) > 1e-8 * (1 + std::abs(avA * avB))) rec.violation("C14:of_tau-disconnected", "of_tau with subtraction must differ by <A><B>", kt);
                }
            }
        }
    }, clk);
    averages_histories(a, rec, clk);
    return 0;
}

// ------------------------------------------------------------------------------------------------ C19
int run_c19(const Args& a, Recorder& rec) {
    Clock clk; std::vector<double> betas = { 1, 10, 100 }, epss = { 0, 1e-12, 1e-6, 1e-2 };
    std::vector<PlanItem> plan = plan_modelspace(a, "m");
    for_each_state(a, rec, plan, [&](Ctx& c) {
        if (stage_states(c, rec, SYM_DEFAULT, 0, true) != ST_OK) return;
        Pipe& P = c.P; int M = P.M, D = P.D; P.make_hamiltonian(); P.make_ops();
        if (nontrivial_H(c.Href)) rec.nontrivial++;
        refed::Mat U; refed::RVec E; std::vector<std::pair<int,int> > addr; P.assemble_eigen(U, E, &addr);
        std::vector<std::unique_ptr<QuadraticOperator> > Q(M * M);
        for (int i = 0; i < M; ++i) for (int j = 0; j < M; ++j) { Q[i * M + j].reset(new QuadraticOperator(*P.IC, *P.S, *P.H, i, j)); Q[i * M + j]->prepare(); Q[i * M + j]->compute(); }
        bool do_chi = (M <= 3) || a.thorough();
        for (double beta : betas) {
            // the library's own eigen-data (validated by C03) carry the block structure needed to say which stripes are removed
            refed::Spectrum sp = refed::spectrum_from(E, U, beta);
            std::vector<refed::Mat> rc(M), rcx(M), rq(M * M); for (int i = 0; i < M; ++i) { rc[i] = refed::to_eigenbasis(sp, refed::c_op(M, i)); rcx[i] = refed::to_eigenbasis(sp, refed::cdag_op(M, i)); for (int j = 0; j < M; ++j) rq[i * M + j] = refed::to_eigenbasis(sp, refed::cdag_op(M, i) * refed::c_op(M, j)); }
            // truncation histories on ONE density matrix: every sequence of two (thorough: three) truncateBlocks calls with tolerances from the
            // grid -- after each call the retained flags must be those of the LAST tolerance (they are recomputed, not only cleared)
            { int depth = a.thorough() ? 3 : 2; long nseq = 1; for (int d = 0; d < depth; ++d) nseq *= (long)epss.size();
              for (long code = 0; code < nseq; ++code) { DensityMatrix R(*P.S, *P.H, beta); R.prepare(); R.compute(); long cdx = code; std::string hs; bool bad = false;
                for (int d = 0; d < depth && !bad; ++d) { double eps = epss[cdx % epss.size()]; cdx /= epss.size(); R.truncateBlocks(eps, false); char eb[32]; snprintf(eb, sizeof eb, "%g", eps); hs += std::string(d ? ";" : "") + "truncateBlocks(" + eb + ")"; rec.evaluations++;
                    for (int b = 0; b < (int)P.S->NumberOfBlocks() && !bad; ++b) { double mx_ = 0; for (unsigned k = 0; k < P.S->getBlockSize(BlockNumber(b)); ++k) mx_ = std::max(mx_, R.getPart(BlockNumber(b)).getWeight(k));
                        bool want = mx_ > eps, got = R.isRetained(BlockNumber(b));
                        if (std::abs(mx_ - eps) > 1e-3 * eps && want != got) { rec.violation(std::string("C19:retention-history:") + (got ? "kept-negligible-block" : "discarded-relevant-block"), "after a sequence of truncateBlocks calls isRetained(b) is not the verdict of the last tolerance (max weight " + std::to_string(mx_) + ")", c.repr + " | beta=" + std::to_string(beta) + " | " + hs + " block " + std::to_string(b)); bad = true; } } }
                rec.counters["truncation_histories"]++; } }
            for (double eps : epss) {
                std::string kase = c.repr + " | beta=" + std::to_string(beta) + " eps=" + std::to_string(eps);
                P.make_rho(beta); P.rho->truncateBlocks(eps, false);
                int nb = P.S->NumberOfBlocks(); std::vector<char> keepb(nb, 0); int nret = 0;
                for (int b = 0; b < nb; ++b) { double mx_ = 0; for (unsigned k = 0; k < P.S->getBlockSize(BlockNumber(b)); ++k) mx_ = std::max(mx_, P.rho->getPart(BlockNumber(b)).getWeight(k));
                    bool want = mx_ > eps; bool got = P.rho->isRetained(BlockNumber(b)); keepb[b] = got; nret += got; rec.evaluations++;
                    if (std::abs(mx_ - eps) > 1e-3 * eps && want != got) rec.violation(std::string("C19:retention:") + (got ? "kept-negligible-block" : "discarded-relevant-block"), "isRetained(b) disagrees with 'some state of the block has weight above eps' (max weight " + std::to_string(mx_) + ")", kase + " block " + std::to_string(b)); }
                rec.counters[nret == nb ? "cases_nothing_discarded" : "cases_with_discarded_blocks"]++;
                std::vector<char> keep(D); for (int k = 0; k < D; ++k) keep[k] = keepb[addr[k].first];
                P.G.reset(new GFContainer(*P.IC, *P.S, *P.H, *P.rho, *P.Ops)); P.G->prepareAll(); P.G->computeAll();
                DensityMatrix rho0(*P.S, *P.H, beta); rho0.prepare(); rho0.compute();
                GFContainer G0(*P.IC, *P.S, *P.H, rho0, *P.Ops); G0.prepareAll(); G0.computeAll();
                for (int i = 0; i < M; ++i) for (int j = 0; j < M; ++j) {
                    refed::Lehmann1 L = refed::gf_terms(sp, rc[i], rcx[j], &keep);
                    for (long n : { -2L, -1L, 0L, 1L, 5L }) { rec.evaluations++; cd z = refed::matsubara_f(beta, n); refed::Val ref = refed::gf_eval(L, z); cd g = (*P.G)(i, j)(n), g0 = G0(i, j)(n);
                        double tol = 1e-7 * ref.S + D * D * 2e-8 / std::abs(z.imag()) + 1e-11; std::string kn = kase + " G(" + std::to_string(i) + "," + std::to_string(j) + ") n=" + std::to_string(n);
                        if (!rec.within(std::abs(g - ref.v), tol, kn)) rec.violation("C19:G:stripes", "truncated G is not the full G with exactly the fully-discarded stripes removed: lib=(" + std::to_string(g.real()) + "," + std::to_string(g.imag()) + ") ref=(" + std::to_string(ref.v.real()) + "," + std::to_string(ref.v.imag()) + ")", kn);
                        if (std::abs(g - g0) > 2 * eps * D / std::abs(z.imag()) + D * D * 4e-8 / std::abs(z.imag()) + 1e-11) rec.violation("C19:G:bound", "|G_trunc - G| exceeds 2 eps dim / |Im z|", kn);
                        if (eps == 0 && std::abs(g - g0) > 1e-12 * (1 + std::abs(g0))) rec.violation("C19:eps0-changes-G", "truncation with eps=0 changes G", kn); }
                    // ensemble average and susceptibility of c+_i c_j
                    { EnsembleAverage EA(*P.S, *P.H, *Q[i * M + j], *P.rho); EA.prepare(); cd ref = 0; for (int k = 0; k < D; ++k) if (keep[k]) ref += sp.w(k) * rq[i * M + j](k, k); rec.evaluations++;
                      if (std::abs(EA.getResult() - ref) > 1e-8) rec.violation("C19:ensemble-average", "truncated ensemble average is not the trace over the retained blocks", kase + " <c+_" + std::to_string(i) + " c_" + std::to_string(j) + ">");
                      EnsembleAverage E0(*P.S, *P.H, *Q[i * M + j], rho0); E0.prepare(); if (std::abs(EA.getResult() - E0.getResult()) > eps * D + 1e-10) rec.violation("C19:ensemble-average:bound", "truncated ensemble average deviates by more than eps*dim", kase); }
                    { int k2 = (i + 1) % M; Susceptibility X(*P.S, *P.H, *Q[i * M + j], *Q[j * M + i], *P.rho); X.prepare(); X.compute(); (void)k2;
                      for (long n : { 0L, 1L, -2L }) { rec.evaluations++; cd W = refed::matsubara_b(beta, n); refed::Val ref = refed::chi2(sp, rq[i * M + j], rq[j * M + i], W, &keep); cd v = X(n);
                        double minP = 1e300; for (int x = 0; x < D; ++x) for (int y = 0; y < D; ++y) { double d = std::abs(sp.E(x) - sp.E(y)); if (d > 1e-6) minP = std::min(minP, d); }
                        double tol = 1e-7 * ref.S + D * D * 2e-8 / std::max(n == 0 ? minP : std::abs(W.imag()), 1e-3) + 1e-11;
                        if (!rec.within(std::abs(v - ref.v), tol, kase)) rec.violation("C19:susceptibility:stripes", "truncated susceptibility is not the full one with exactly the fully-discarded stripes removed: lib=" + std::to_string(v.real()) + " ref=" + std::to_string(ref.v.real()), kase + " chi(" + std::to_string(i) + std::to_string(j) + "," + std::to_string(j) + std::to_string(i) + ") n=" + std::to_string(n)); } }
                }
                if (do_chi) for (int i = 0; i < M; ++i) for (int j = 0; j < M; ++j) { if (i == j && M > 2) continue; int k = j, l = i;
                    TwoParticleGF X(*P.S, *P.H, P.Ops->getAnnihilationOperator(i), P.Ops->getAnnihilationOperator(j), P.Ops->getCreationOperator(k), P.Ops->getCreationOperator(l), *P.rho); X.prepare(); X.compute();
                    TwoParticleGF X0(*P.S, *P.H, P.Ops->getAnnihilationOperator(i), P.Ops->getAnnihilationOperator(j), P.Ops->getCreationOperator(k), P.Ops->getCreationOperator(l), rho0); X0.prepare(); X0.compute();
                    refed::TwoPGFRef R(sp, rc[i], rc[j], rcx[k], rcx[l], &keep);
                    for (long n1 = -1; n1 <= 0; ++n1) for (long n2 = -1; n2 <= 0; ++n2) for (long n3 = -1; n3 <= 0; ++n3) { rec.evaluations++;
                        cd v = X(n1, n2, n3); refed::Val ref = R(refed::matsubara_f(beta, n1), refed::matsubara_f(beta, n2), refed::matsubara_f(beta, n3));
                        std::string kn = kase + " chi(" + std::to_string(i) + std::to_string(j) + std::to_string(k) + std::to_string(l) + ") n=(" + std::to_string(n1) + "," + std::to_string(n2) + "," + std::to_string(n3) + ")";
                        if (!rec.within(std::abs(v - ref.v), 1e-7 * ref.S + 1e-11, kn)) rec.violation("C19:chi:stripes", "truncated chi is not the full chi with exactly the fully-discarded stripes removed: lib=(" + std::to_string(v.real()) + "," + std::to_string(v.imag()) + ") ref=(" + std::to_string(ref.v.real()) + "," + std::to_string(ref.v.imag()) + ")", kn);
                        if (eps == 0 && std::abs(v - X0(n1, n2, n3)) > 1e-12 * (1 + std::abs(v))) rec.violation("C19:eps0-changes-chi", "truncation with eps=0 changes chi", kn); }
                }
            }
        }
    }, clk);
    return 0;
}

// ------------------------------------------------------------------------------------------------ C08
struct Obs8 { std::vector<double> spec, wts; double E, N; std::vector<double> occ; std::vector<cd> G, X, chi; };

int run_c08(const Args& a, Recorder& rec) {
    Clock clk; std::vector<PlanItem> plan = plan_modelspace(a, "m");
    std::vector<std::vector<std::string> > customs = { { "N" }, { "Sz" }, { "N_site[A]" }, { "n_0" }, { "N_up", "N_down" }, { "N", "Sz" }, { "N_orb0" } };
    double beta = 5; std::vector<long> ns = { -2, -1, 0, 1, 7 };
    for_each_state(a, rec, plan, [&](Ctx& c0) {
        std::vector<std::pair<std::string, Obs8> > obs;
        std::vector<std::pair<SymMode, std::vector<std::string> > > analyses; analyses.push_back({ SYM_DEFAULT, {} }); analyses.push_back({ SYM_IGNORE, {} }); for (auto& cu : customs) analyses.push_back({ SYM_CUSTOM, cu });
        bool counted = false;
        for (auto& an : analyses) {
            Ctx c; c.sh = c0.sh; c.A = c0.A; c.st = c0.st; c.repr = c0.repr; std::string name = mode_name(an.first);
            std::vector<Operator> ops; if (an.first == SYM_CUSTOM) { Pipe tmp; tmp.make_lattice(c.sh, hist_gens(c.A, c.st.hist)); std::vector<Candidate> C = candidates(tmp); name = "custom["; for (auto& n : an.second) { bool f = false; for (auto& k : C) if (k.name == n) { ops.push_back(k.op); f = true; } if (!f) { name.clear(); break; } name += n + ","; } if (name.empty()) continue; name += "]"; }
            if (stage_states(c, rec, an.first, an.first == SYM_CUSTOM ? &ops : 0, true) != ST_OK) continue;
            if (!counted && nontrivial_H(c.Href)) { rec.nontrivial++; counted = true; }
            Pipe& P = c.P; int M = P.M, D = P.D; P.make_hamiltonian(); P.make_rho(beta); P.make_ops(); P.make_gf();
            Obs8 o; RealVectorType ev = P.H->getEigenValues(); o.spec.assign(ev.data(), ev.data() + D); std::sort(o.spec.begin(), o.spec.end());
            for (BlockNumber b = 0; b < P.S->NumberOfBlocks(); b++) for (unsigned k = 0; k < P.S->getBlockSize(b); ++k) o.wts.push_back(P.rho->getPart(b).getWeight(k)); std::sort(o.wts.begin(), o.wts.end());
            o.E = P.rho->getAverageEnergy(); o.N = P.rho->getAverageOccupancy(); for (int i = 0; i < M; ++i) o.occ.push_back(P.rho->getAverageOccupancy(i));
            for (int i = 0; i < M; ++i) for (int j = 0; j < M; ++j) for (long n : ns) o.G.push_back((*P.G)(i, j)(n));
            for (int i = 0; i < M; ++i) for (int j = 0; j < M; ++j) { QuadraticOperator A(*P.IC, *P.S, *P.H, i, j), B(*P.IC, *P.S, *P.H, j, i); A.prepare(); A.compute(); B.prepare(); B.compute(); Susceptibility X(*P.S, *P.H, A, B, *P.rho); X.prepare(); X.compute(); for (long n : { 0L, 1L, -2L }) o.X.push_back(X(n)); EnsembleAverage EA(*P.S, *P.H, A, *P.rho); EA.prepare(); o.X.push_back(EA.getResult()); }
            if (M <= 3 || a.thorough()) for (int i = 0; i < M; ++i) for (int j = 0; j < M; ++j) { if (M > 2 && i == j) continue; TwoParticleGF X(*P.S, *P.H, P.Ops->getAnnihilationOperator(i), P.Ops->getAnnihilationOperator(j), P.Ops->getCreationOperator(j), P.Ops->getCreationOperator(i), *P.rho); X.prepare(); X.compute(); for (long n1 = -1; n1 <= 0; ++n1) for (long n2 = -1; n2 <= 0; ++n2) for (long n3 = -1; n3 <= 0; ++n3) o.chi.push_back(X(n1, n2, n3)); }
            obs.push_back(std::make_pair(name, o));
        }
        int D = 1 << make_shape(c0.sh.id).modes(); double allow = D * D * 4e-8 / (M_PI / beta);
        for (size_t x = 0; x < obs.size(); ++x) for (size_t y = x + 1; y < obs.size(); ++y) {
            rec.evaluations++; const Obs8& p = obs[x].second; const Obs8& q = obs[y].second; std::string kase = c0.repr + " | " + obs[x].first + " vs " + obs[y].first;
            std::string fam = obs[x].first + "-vs-" + obs[y].first; double scale = 1 + std::abs(p.spec.front()) + std::abs(p.spec.back());
            auto cmpv = [&](const std::vector<double>& u, const std::vector<double>& v, double tol, const char* what) { if (u.size() != v.size()) { rec.violation(std::string("C08:") + what + ":" + fam, std::string(what) + " has different size under the two partitions", kase); return; } for (size_t k = 0; k < u.size(); ++k) if (std::abs(u[k] - v[k]) > tol) { rec.violation(std::string("C08:") + what + ":" + fam, std::string(what) + " differs between the two partitions: " + std::to_string(u[k]) + " vs " + std::to_string(v[k]), kase); return; } };
            auto cmpc = [&](const std::vector<cd>& u, const std::vector<cd>& v, double rel, double abs_, const char* what) { if (u.size() != v.size()) { rec.violation(std::string("C08:") + what + ":" + fam, std::string(what) + " has different size under the two partitions", kase); return; } for (size_t k = 0; k < u.size(); ++k) if (std::abs(u[k] - v[k]) > rel * (1 + std::abs(u[k])) + abs_) { rec.violation(std::string("C08:") + what + ":" + fam, std::string(what) + " differs between the two partitions: (" + std::to_string(u[k].real()) + "," + std::to_string(u[k].imag()) + ") vs (" + std::to_string(v[k].real()) + "," + std::to_string(v[k].imag()) + ")", kase + " #" + std::to_string(k)); return; } };
            cmpv(p.spec, q.spec, 1e-9 * scale, "spectrum"); cmpv(p.wts, q.wts, 1e-9, "weights"); cmpv(p.occ, q.occ, 1e-8, "occupancy");
            if (std::abs(p.E - q.E) > 1e-8 * scale) rec.violation("C08:energy:" + fam, "average energy differs", kase);
            cmpc(p.G, q.G, 1e-9, allow, "G"); cmpc(p.X, q.X, 1e-8, 10 * allow, "susceptibility"); cmpc(p.chi, q.chi, 1e-7, 1e-9, "chi");
        }
    }, clk);
    return 0;
}
} // namespace
REGISTER_CHECK("C14", run_c14);
REGISTER_CHECK("C19", run_c19);
REGISTER_CHECK("C08", run_c08);
