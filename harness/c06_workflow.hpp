// the per-rank program of C06: the documented workflow with the communicator passed everywhere it is accepted.
// Shared by the virtual-MPI exploration (vx_c06.cpp) and the real-MPI conformance driver (conf_c06.cpp).
#pragma once
#include "../engines/harness.hpp"
#include "../engines/vmpi/vmpi.hpp"
#include <array>
namespace c06 {
using namespace mx;
typedef boost::tuple<ComplexType, ComplexType, ComplexType> FT;
typedef std::map<std::string, std::vector<double> > Dump;

inline uint64_t digest_doubles(const double* p, size_t n, uint64_t h) { for (size_t i = 0; i < n; ++i) { long long q = llround(p[i] * 1e8); h = vmpi::hash_bytes(&q, sizeof(q), h); } return h; }
inline void put(Dump& d, const std::string& k, cd v) { d[k].push_back(v.real()); d[k].push_back(v.imag()); }

struct ModelSpec { std::string shape; std::vector<Gen> hist; };
inline ModelSpec model_of(int id) {
    ModelSpec m;
    if (id == 1) { m.shape = "S1"; Gen g; g.kind = COULOMB_S; g.l1 = "A"; g.v[0] = 2; g.v[1] = -0.5; Gen h; h.kind = MAGN; h.l1 = "A"; h.v[0] = 0.25; m.hist = { g, h }; }
    else if (id == 2) { m.shape = "S2"; Gen h; h.kind = HOP_OOS; h.l1 = "A"; h.l2 = "B"; h.v[0] = -1; Gen l; l.kind = LEVEL; l.l1 = "A"; l.v[0] = 0.5; Gen r; r.kind = RAW; r.v[0] = 2; RawOp x1 = { true, "A", 0, 0 }, x2 = { false, "A", 0, 0 }, x3 = { true, "B", 0, 0 }, x4 = { false, "B", 0, 0 }; r.raw = { x1, x2, x3, x4 }; m.hist = { h, l, r }; }
    else { m.shape = "S6"; Gen u; u.kind = COULOMB_S; u.l1 = "A"; u.v[0] = 2; u.v[1] = -1; Gen u2 = u; u2.l1 = "B"; u2.v[0] = 0.5; u2.v[1] = 0.5; Gen t; t.kind = HOP_ALL; t.l1 = "A"; t.l2 = "B"; t.v[0] = -1; m.hist = { u, u2, t }; }
    return m;
}
const int COMPS[5][4] = { { 0, 1, 0, 1 }, { 0, 0, 0, 0 }, { 1, 1, 1, 1 }, { 1, 0, 0, 1 }, { 0, 1, 1, 0 } };

// the per-rank program.  phase: 1 = distributed H only, 2 = + TwoParticleGF::compute per component, 3 = + container computeAll
inline void workflow(int rank, const std::map<std::string,long>& cp, Dump& out, bool checkpoints) {
    struct { const std::map<std::string,long>& p; } c = { cp };
    ModelSpec ms = model_of(c.p.at("model")); Shape sh = make_shape(ms.shape); int ncomp = c.p.at("comps"), phase = c.p.at("phase"); bool clear = c.p.at("clear"), split = c.p.at("split"); double beta = 2.0;
    boost::mpi::communicator comm;
    Pipe P; P.make_lattice(sh, ms.hist); P.make_states(SYM_DEFAULT);
    P.H.reset(new Hamiltonian(*P.IC, *P.HS, *P.S)); P.H->prepare(comm);
    uint64_t dg = 0x11;
    for (BlockNumber b = 0; b < P.S->NumberOfBlocks(); b++) { const MatrixType& m = P.H->getPart(b).getMatrix(); dg = digest_doubles((const double*)m.data(), m.size() * (sizeof(MelemType) / sizeof(double)), dg); dg = vmpi::hash_bytes(&P.H->getPart(b).Status, sizeof(unsigned), dg); for (long i = 0; i < m.size(); ++i) put(out, "Hprep", cd(m.data()[i])); }
    if (checkpoints) vmpi::checkpoint(dg);
    P.H->compute(comm);
    for (BlockNumber b = 0; b < P.S->NumberOfBlocks(); b++) { const HamiltonianPart& hp = P.H->getPart(b); const MatrixType& m = hp.getMatrix(); dg = digest_doubles((const double*)m.data(), m.size() * (sizeof(MelemType) / sizeof(double)), dg); dg = digest_doubles(hp.getEigenValues().data(), hp.getEigenValues().size(), dg); dg = vmpi::hash_bytes(&hp.Status, sizeof(unsigned), dg);
        for (long i = 0; i < m.size(); ++i) put(out, "evec", cd(m.data()[i])); for (long i = 0; i < hp.getEigenValues().size(); ++i) put(out, "eval", hp.getEigenValues()(i)); }
    put(out, "E0", P.H->getGroundEnergy());
    if (checkpoints) vmpi::checkpoint(dg);
    P.make_rho(beta); P.make_ops(); P.make_gf(); int M = P.M;
    for (int i = 0; i < M; ++i) for (int j = 0; j < M; ++j) for (long n = -1; n <= 1; ++n) put(out, "G", (*P.G)(i, j)(n));
    // block truncation after the distributed diagonalisation: every rank must discard the same blocks and get the same truncated G
    { DensityMatrix R2(*P.S, *P.H, beta); R2.prepare(); R2.compute(); R2.truncateBlocks(1e-2, false);
      for (BlockNumber b = 0; b < P.S->NumberOfBlocks(); b++) put(out, "retained", R2.isRetained(b) ? 1.0 : 0.0);
      GreensFunction Gt(*P.S, *P.H, P.Ops->getAnnihilationOperator(0), P.Ops->getCreationOperator(0), R2); Gt.prepare(); Gt.compute(); for (long n = -1; n <= 1; ++n) put(out, "Gtrunc", Gt(n)); }
    std::vector<FT> freqs; std::vector<std::array<long,3> > tri = { { 0, 0, 0 }, { 0, -1, 0 }, { 1, -2, 0 }, { -1, 0, 1 } };
    // "freqrep" > 1 (free-running OpenMP pass): a long list in which every triple is repeated several times in a row, so that
    // loop iterations that (wrongly) communicate through shared state overlap in time
    int freqrep = cp.count("freqrep") ? (int)cp.at("freqrep") : 1;
    if (freqrep > 1) for (long n1 = -2; n1 <= 1; ++n1) for (long n3 = -1; n3 <= 1; ++n3) { std::array<long,3> t = { n1, -n1 - 1 + n3, n3 }; bool dup = false; for (auto& u : tri) if (u == t) dup = true; if (!dup) tri.push_back(t); }
    for (auto& t : tri) for (int r = 0; r < freqrep; ++r) freqs.push_back(FT(refed::matsubara_f(beta, t[0]), refed::matsubara_f(beta, t[1]), refed::matsubara_f(beta, t[2])));
    auto dig_terms = [&](TwoParticleGF& X, uint64_t h) { for (auto* p : X.parts) { h = vmpi::hash_bytes(&p->Status, sizeof(unsigned), h); for (auto& t : p->NonResonantTerms.data) { double v[6] = { t.Coeff.real(), t.Coeff.imag(), t.Poles[0], t.Poles[1], t.Poles[2], double(t.isz4) + 2 * t.Weight }; h = digest_doubles(v, 6, h); } for (auto& t : p->ResonantTerms.data) { double v[8] = { t.ResCoeff.real(), t.ResCoeff.imag(), t.NonResCoeff.real(), t.NonResCoeff.imag(), t.Poles[0], t.Poles[1], t.Poles[2], double(t.isz1z2) + 2 * t.Weight }; h = digest_doubles(v, 8, h); } } return h; };
    if (phase >= 2) for (int k = 0; k < ncomp; ++k) {
        const int* q = COMPS[k]; if (q[0] >= M || q[1] >= M || q[2] >= M || q[3] >= M) continue;
        TwoParticleGF X(*P.S, *P.H, P.Ops->getAnnihilationOperator(q[0]), P.Ops->getAnnihilationOperator(q[1]), P.Ops->getCreationOperator(q[2]), P.Ops->getCreationOperator(q[3]), *P.rho); X.prepare();
        std::vector<ComplexType> tab = X.compute(clear, freqs, comm);
        std::string tag = "chi" + std::to_string(k);
        if (comm.rank() == 0) for (auto& v : tab) put(out, tag + ".table(root)", v);          // the reduction root holds the table
        put(out, tag + ".tablesize", double(tab.size()));
        if (!clear) for (auto& t : tri) put(out, tag + ".terms", X(t[0], t[1], t[2]));          // evaluation from terms is offered on every rank
        dg = dig_terms(X, dg); if (comm.rank() == 0) dg = digest_doubles((const double*)tab.data(), tab.size() * 2, dg);
        if (checkpoints) vmpi::checkpoint(dg);
    }
    if (phase >= 3) {
        TwoParticleGFContainer C(*P.IC, *P.S, *P.H, *P.rho, *P.Ops); std::set<IndexCombination4> want;
        for (int k = 0; k < ncomp; ++k) { const int* q = COMPS[k]; if (q[0] < M && q[1] < M && q[2] < M && q[3] < M) want.insert(IndexCombination4(q[0], q[1], q[2], q[3])); }
        C.prepareAll(want);
        std::map<IndexCombination4, std::vector<ComplexType> > tabs = C.computeAll(clear, freqs, comm, split);
        for (auto it = C.NonTrivialElements.begin(); it != C.NonTrivialElements.end(); ++it) {
            std::string tag = "cont" + std::to_string(it->first.Index1) + std::to_string(it->first.Index2) + std::to_string(it->first.Index3) + std::to_string(it->first.Index4);
            auto tb = tabs.find(it->first); put(out, tag + ".has_table", tb != tabs.end() ? 1.0 : 0.0);
            // split path broadcasts the tables to every rank; the unsplit path leaves them on the reduction root
            if (tb != tabs.end() && (split || comm.rank() == 0)) for (auto& v : tb->second) put(out, tag + (split ? ".table(all)" : ".table(root)"), v);
            if (tb != tabs.end()) put(out, tag + ".tablesize", double(tb->second.size()));
            if (!clear) for (auto& t : tri) put(out, tag + ".terms", C(it->first)(t[0], t[1], t[2]));   // every listed component must be evaluable on every rank
            dg = dig_terms(*it->second, dg);
        }
        if (checkpoints) vmpi::checkpoint(dg);
    }
}

} // namespace c06
