// C13 -- the 2PGF container honours exchange symmetries regardless of the request history.  histx over call histories.
#include "checks.hpp"
#include <array>
using namespace mx;

namespace {
typedef boost::tuple<ComplexType, ComplexType, ComplexType> FT;
typedef std::array<int,4> Q4;

struct Op13 { Op13() : kind(0), split(false) { q = {0,0,0,0}; } int kind; /*0 prepareAll(set) 1 computeAll(split) 2 lookup 3 lookup+prepare+compute*/ std::vector<Q4> set; bool split; Q4 q; std::string repr; };

int perm_id(const Permutation4& p) { for (int k = 0; k < 24; ++k) if (permutations4[k] == p) return k; return -1; }

int run(const Args& a, Recorder& rec) {
    Clock clk; int maxdepth = a.thorough() ? 4 : 3;
    std::vector<std::pair<std::string, std::vector<Gen> > > models;
    { Shape s1 = make_shape("S1"); Gen g; g.kind = COULOMB_S; g.l1 = "A"; g.v[0] = 2; g.v[1] = -0.5; Gen m; m.kind = MAGN; m.l1 = "A"; m.v[0] = 0.5; Gen f; f.kind = HOP_OOSS; f.l1 = f.l2 = "A"; f.v[0] = 0.5; f.s1 = 0; f.s2 = 1; models.push_back(std::make_pair("S1", std::vector<Gen>{ g, m, f })); }
    { Gen h; h.kind = HOP_OOS; h.l1 = "A"; h.l2 = "B"; h.v[0] = -1; Gen l; l.kind = LEVEL; l.l1 = "A"; l.v[0] = 0.5; Gen r; r.kind = RAW; r.v[0] = 2; RawOp x1 = { true, "A", 0, 0 }, x2 = { false, "A", 0, 0 }, x3 = { true, "B", 0, 0 }, x4 = { false, "B", 0, 0 }; r.raw = { x1, x2, x3, x4 }; models.push_back(std::make_pair("S2", std::vector<Gen>{ h, l, r })); }
    long idx = 0;
    for (auto& mdl : models) {
        Shape sh = make_shape(mdl.first); Pipe P; double beta = 2.0; P.make_lattice(sh, mdl.second); P.make_states(SYM_DEFAULT); P.make_hamiltonian(); P.make_rho(beta); P.make_ops();
        int M = P.M; std::vector<Q4> all; for (int i = 0; i < M; ++i) for (int j = 0; j < M; ++j) for (int k = 0; k < M; ++k) for (int l = 0; l < M; ++l) all.push_back({ i, j, k, l });
        // box of frequency triples; direct reference values for every quadruple (themselves checked against refed under C02)
        std::vector<boost::tuple<long,long,long> > bx; for (long x = -2; x <= 1; ++x) for (long y = -2; y <= 1; ++y) for (long z = -2; z <= 1; ++z) bx.push_back(boost::make_tuple(x, y, z));
        std::map<Q4, std::vector<cd> > direct;
        for (auto& q : all) { TwoParticleGF X(*P.S, *P.H, P.Ops->getAnnihilationOperator(q[0]), P.Ops->getAnnihilationOperator(q[1]), P.Ops->getCreationOperator(q[2]), P.Ops->getCreationOperator(q[3]), *P.rho); X.prepare(); X.compute(); std::vector<cd> v; for (auto& b : bx) v.push_back(X(b.get<0>(), b.get<1>(), b.get<2>())); direct[q] = v; }
        // exchange identities hold for the direct objects (sanity of the oracle; a failure here is C02's, reported as a note)
        auto at = [&](const Q4& q, long n1, long n2, long n3, bool& inbox) -> cd { inbox = (n1 >= -2 && n1 <= 1 && n2 >= -2 && n2 <= 1 && n3 >= -2 && n3 <= 1); if (!inbox) return 0; return direct[q][((n1 + 2) * 4 + (n2 + 2)) * 4 + (n3 + 2)]; };
        for (auto& q : all) for (auto& b : bx) { bool ib; long n1 = b.get<0>(), n2 = b.get<1>(), n3 = b.get<2>(); cd v = at(q, n1, n2, n3, ib);
            cd w = at({ q[1], q[0], q[2], q[3] }, n2, n1, n3, ib); if (ib && std::abs(v + w) > 1e-9 * (1 + std::abs(v))) rec.violation("C13:exchange-direct:annihilators", "chi_jikl(w2,w1;w3) != -chi_ijkl(w1,w2;w3) for directly constructed objects", mdl.first);
            cd u = at({ q[0], q[1], q[3], q[2] }, n1, n2, n1 + n2 - n3, ib); if (ib && std::abs(v + u) > 1e-9 * (1 + std::abs(v))) rec.violation("C13:exchange-direct:creators", "chi_ijlk(w1,w2;w1+w2-w3) != -chi_ijkl(w1,w2;w3) for directly constructed objects", mdl.first); }
        // alphabet
        std::vector<Op13> A;
        auto addprep = [&](std::vector<Q4> s, const char* nm) { Op13 o; o.kind = 0; o.set = s; o.repr = std::string("prepareAll(") + nm + ")"; A.push_back(o); };
        addprep({}, "all"); addprep({ { 0, 1, 0, 1 } }, "{0101}"); addprep({ { 1, 0, 0, 1 } }, "{1001}"); addprep({ { 0, 0, 0, 0 }, { 0, 1, 1, 0 } }, "{0000,0110}"); addprep({ { 1, 1, 1, 1 } }, "{1111}");
        for (int sp = 0; sp < 2; ++sp) { Op13 o; o.kind = 1; o.split = sp; o.repr = sp ? "computeAll(split)" : "computeAll(unsplit)"; A.push_back(o); }
        for (auto& q : all) { std::string qs = std::to_string(q[0]) + std::to_string(q[1]) + std::to_string(q[2]) + std::to_string(q[3]);
            { Op13 o; o.kind = 2; o.q = q; o.repr = "lookup(" + qs + ")"; A.push_back(o); } { Op13 o; o.kind = 3; o.q = q; o.repr = "lookup+prepare+compute(" + qs + ")"; A.push_back(o); }
            { Op13 o; o.kind = 4; o.q = q; o.repr = "lookup+prepare(" + qs + ")"; A.push_back(o); } }     // prepared on demand, left for the next bulk computation
        // replay a history on a fresh container; returns abstract state key; evaluates invariants if own
        auto hrepr = [&](const std::vector<int>& h) { std::string s = mdl.first + ":"; for (size_t i = 0; i < h.size(); ++i) { s += (i ? ";" : ""); s += A[h[i]].repr; } if (h.empty()) s += "<new>"; return s; };
        auto replay = [&](const std::vector<int>& h, int own, std::string& key) -> bool {     // own: 0 = state key only, 1 = checks on the last call only, 2 = all invariants
            TwoParticleGFContainer X(*P.IC, *P.S, *P.H, *P.rho, *P.Ops); std::string hr = hrepr(h); bool last_bulk_ok = false; bool alive = true;
            for (size_t step = 0; step < h.size() && alive; ++step) { const Op13& o = A[h[step]]; last_bulk_ok = false;
                try {
                    if (o.kind == 0) { std::set<IndexCombination4> s; for (auto& q : o.set) s.insert(IndexCombination4(q[0], q[1], q[2], q[3])); X.prepareAll(s); }
                    else if (o.kind == 1) { X.computeAll(false, std::vector<FT>(), P.comm, o.split); last_bulk_ok = true; }
                    else { IndexCombination4 key(o.q[0], o.q[1], o.q[2], o.q[3]);
                        // both lookup overloads; the reference returned must be the entry the container now files under the requested key
                        ElementWithPermFreq<TwoParticleGF>& r = (step % 2) ? X(key) : X(ParticleIndex(o.q[0]), ParticleIndex(o.q[1]), ParticleIndex(o.q[2]), ParticleIndex(o.q[3]));
                        if (own && step + 1 == h.size()) { rec.evaluations++; auto it = X.ElementsMap.find(key);
                            if (it == X.ElementsMap.end()) rec.violation("C13:lookup:not-filed", "after a lookup the container does not list the requested quadruple", hr);
                            else if (&it->second != &r) rec.violation("C13:lookup:returns-other-element", "a lookup returns something else than the entry filed under the requested quadruple", hr);
                            if (!X.isInContainer(key)) rec.violation("C13:lookup:isInContainer", "isInContainer(q) is false right after q was looked up", hr); }
                        if (o.kind != 2) { TwoParticleGF& e = r; e.prepare(); if (o.kind == 3) e.compute(); } }
                } catch (ComputableObject::exStatusMismatch&) { alive = false; if (own) rec.counters["history_rejected_status_mismatch"]++; }
                  catch (std::exception& e) { alive = false; if (own) rec.violation("C13:call-throws:" + o.repr.substr(0, o.repr.find('(')), std::string("a container call throws: ") + e.what(), hr); }
            }
            if (!alive) return false;
            // abstract state
            std::ostringstream ks; std::map<const TwoParticleGF*, int> cls;
            for (auto it = X.ElementsMap.begin(); it != X.ElementsMap.end(); ++it) { const TwoParticleGF* e = it->second.pElement.get(); if (!cls.count(e)) { int n = cls.size(); cls[e] = n; }
                int pst = 0; for (auto* p : e->parts) pst = pst * 3 + p->Status; ks << it->first.Index1 << it->first.Index2 << it->first.Index3 << it->first.Index4 << ":p" << perm_id(it->second.FrequenciesPermutation) << ":e" << cls[e] << ":s" << const_cast<TwoParticleGF*>(e)->getStatus() << ":" << e->parts.size() << ":" << pst << ";"; }
            ks << "|"; for (auto it = X.NonTrivialElements.begin(); it != X.NonTrivialElements.end(); ++it) { const TwoParticleGF* e = it->second.get(); ks << it->first.Index1 << it->first.Index2 << it->first.Index3 << it->first.Index4 << ":s" << const_cast<TwoParticleGF*>(e)->getStatus() << ":e" << (cls.count(e) ? cls[e] : -1) << ";"; }
            ks << (last_bulk_ok ? "|after-bulk" : "|");      // the 'evaluable after a bulk computation' clause looks at the last call: it is part of the state
            key = ks.str();
            if (own < 2) return true;
            // invariants
            for (auto it = X.ElementsMap.begin(); it != X.ElementsMap.end(); ++it) {
                Q4 q = { (int)it->first.Index1, (int)it->first.Index2, (int)it->first.Index3, (int)it->first.Index4 }; TwoParticleGF& e = static_cast<TwoParticleGF&>(it->second);
                bool computed = (e.getStatus() == ComputableObject::Computed); bool stored = (perm_id(it->second.FrequenciesPermutation) == 0);
                std::string qs = std::to_string(q[0]) + std::to_string(q[1]) + std::to_string(q[2]) + std::to_string(q[3]);
                if (!computed) { if (last_bulk_ok) rec.violation(std::string("C13:listed-not-computed-after-bulk:") + (stored ? "stored" : "alias"), "after computeAll an element the container lists is not computed", hr + " element " + qs); continue; }
                for (size_t w = 0; w < bx.size(); ++w) { rec.evaluations++;
                    cd v; try { v = it->second(bx[w].get<0>(), bx[w].get<1>(), bx[w].get<2>()); } catch (std::exception& ex) { rec.violation(std::string("C13:computed-not-evaluable:") + (stored ? "stored" : "alias"), std::string("a computed element throws on evaluation: ") + ex.what(), hr + " element " + qs); break; }
                    const cd d = direct[q][w];
                    if (std::abs(v - d) > 1e-9 * (1 + std::abs(d))) { rec.violation(std::string("C13:value:") + (stored ? "stored" : "alias-perm" + std::to_string(perm_id(it->second.FrequenciesPermutation))), "container value differs from a directly constructed two-particle Green's function: container=(" + std::to_string(v.real()) + "," + std::to_string(v.imag()) + ") direct=(" + std::to_string(d.real()) + "," + std::to_string(d.imag()) + ")", hr + " element " + qs + " n=(" + std::to_string(bx[w].get<0>()) + "," + std::to_string(bx[w].get<1>()) + "," + std::to_string(bx[w].get<2>()) + ")"); break; }
                }
            }
            return true;
        };
        // BFS
        std::unordered_set<std::string> seen; std::vector<std::vector<int> > frontier(1), next; { std::string k; replay(frontier[0], 0, k); seen.insert(k); }
        long nstates = 1;
        for (int d = 0; d <= maxdepth; ++d) {
            next.clear();
            for (auto& h : frontier) {
                bool own = (idx++ % a.nshards) == a.shard; std::string hr = hrepr(h);
                if (own && a.want(hr)) { marker("C13 " + hr); rec.states++; if (h.size() >= 2) rec.nontrivial++; if (idx % 401 == 0) rec.sample(hr); std::string k; replay(h, 2, k); }
                if (d == maxdepth) continue;
                for (size_t o = 0; o < A.size(); ++o) { std::vector<int> h2 = h; h2.push_back((int)o); rec.enum_transitions++; std::string k;
                    if (!replay(h2, 0, k)) { // rejected history: evaluate its violation (if any) once, by its owner
                        if ((idx % a.nshards) == a.shard) { std::string kk; replay(h2, 2, kk); } continue; }
                    if (seen.insert(k).second) { next.push_back(h2); nstates++; }
                    else if (A[o].kind >= 2 && (idx % a.nshards) == a.shard) { std::string kk; replay(h2, 1, kk); } }      // a lookup that leaves the state unchanged: what it returned is still checked
            }
            frontier.swap(next);
            if (clk.s() > a.deadline) { rec.exhaustive = false; rec.note("deadline at depth " + std::to_string(d)); break; }
        }
        rec.enum_states += nstates;
        rec.bound += mdl.first + ": depth " + std::to_string(maxdepth) + " over " + std::to_string(A.size()) + " calls, " + std::to_string(nstates) + " abstract states; ";
    }
    return 0;
}
} // namespace
REGISTER_CHECK("C13", run);
