// C17 -- no out-of-bounds access / undefined behaviour.  The sanitizers are the oracle (the driver turns every report that
// follows an @@CASE marker into a violation); this check only has to DRIVE the anchored code through the inputs that stress it:
// operator pairs with different sparsity patterns (symmetries ignored), empty frequency lists, one-dimensional blocks,
// state-label lookups at the boundary.
#include "checks.hpp"
#include <pomerol/Vertex4.h>
#include <array>
using namespace mx;

namespace {
typedef boost::tuple<ComplexType, ComplexType, ComplexType> FT;

int run_sweep(const Args& a, Recorder& rec, bool memcheck) {
    Clock clk; std::vector<PlanItem> plan; bool T = a.thorough();
    auto add = [&](const char* s, int d, bool rich = true) { PlanItem it; it.shape = s; it.depth = d; it.opts.rich = rich; plan.push_back(it); };
    if (memcheck) { add("S1", T ? 2 : 1); add("S2", 2); add("S3", 1); add("S4", 1); if (T) { add("S5", 1); add("S4r", 1); add("S3", 2, false); } }      // the same sweep on a plan small enough for valgrind (C17M)
    else { add("S1", T ? 2 : 1); add("S2", 2); add("S3", T ? 2 : 1); add("S4", 1); add("S5", 1); add("S6", 1, false); if (T) add("S7", 1, false); }
    for_each_state(a, rec, plan, [&](Ctx& c0) {
        for (SymMode mode : { SYM_IGNORE, SYM_DEFAULT }) {
            Ctx c; c.sh = c0.sh; c.A = c0.A; c.st = c0.st; c.repr = c0.repr;
            if (stage_states(c, rec, mode, 0, true) != ST_OK) continue;
            Pipe& P = c.P; int M = P.M, D = P.D; double beta = 3.0; rec.evaluations++;
            if (mode == SYM_IGNORE && nontrivial_H(c.Href)) rec.nontrivial++;
            marker("C17 " + c.repr + " | partition=" + mode_name(mode) + " | pipeline");
            P.make_hamiltonian(); P.make_rho(beta); P.make_ops(); P.make_gf();
            for (BlockNumber b = 0; b < P.S->NumberOfBlocks(); b++) rec.counters[P.S->getBlockSize(b) == 1 ? "blocks_1x1" : "blocks_larger"]++;
            // boundary state labels: the largest valid one and the first invalid one
            marker("C17 " + c.repr + " | partition=" + mode_name(mode) + " | state-label lookups at 2^M-1 and 2^M");
            { volatile long sink = 0; sink += P.S->getBlockNumber(QuantumState(D - 1)); sink += P.S->getInnerState(QuantumState(D - 1)); sink += (long)P.H->getEigenValue(D - 1); sink += (long)(1e6 * P.rho->getWeight(D - 1));
              int threw = 0;
              try { sink += P.S->getBlockNumber(QuantumState(D)); } catch (std::exception&) { ++threw; }
              try { sink += P.S->getInnerState(QuantumState(D)); } catch (std::exception&) { ++threw; }
              try { FockState f(M + 1, (unsigned long)D); sink += P.S->getBlockNumber(f); } catch (std::exception&) { ++threw; }
              try { FockState f(M + 1, (unsigned long)D); sink += P.S->getInnerState(f); } catch (std::exception&) { ++threw; }
              try { sink += (long)P.H->getEigenValue(D); } catch (std::exception&) { ++threw; }
              try { sink += (long)(1e6 * P.rho->getWeight(D)); } catch (std::exception&) { ++threw; }
              rec.counters["boundary_lookups_rejected"] += threw; rec.counters["boundary_lookups_total"] += 6; }
            // every susceptibility pair (operators changing different quantum numbers: different sparsity patterns in one block)
            marker("C17 " + c.repr + " | partition=" + mode_name(mode) + " | susceptibilities and ensemble averages");
            if (M <= 3 || mode == SYM_IGNORE) { std::vector<std::unique_ptr<QuadraticOperator> > Q(M * M);
                for (int i = 0; i < M; ++i) for (int j = 0; j < M; ++j) { Q[i * M + j].reset(new QuadraticOperator(*P.IC, *P.S, *P.H, i, j)); Q[i * M + j]->prepare(); Q[i * M + j]->compute(); EnsembleAverage EA(*P.S, *P.H, *Q[i * M + j], *P.rho); EA.prepare(); }
                for (int x = 0; x < M * M; ++x) for (int y = 0; y < M * M; ++y) { if (M > 3 && (x * 7 + y) % 3) continue; Susceptibility X(*P.S, *P.H, *Q[x], *Q[y], *P.rho); X.prepare(); X.compute(); volatile double s = std::abs(X(0L)) + std::abs(X.of_tau(beta / 3)); (void)s; rec.evaluations++; } }
            // two-particle functions: on-demand, frequency lists incl. the EMPTY list, both container paths, vertex storage
            marker("C17 " + c.repr + " | partition=" + mode_name(mode) + " | two-particle Green's functions");
            std::vector<FT> none, some; some.push_back(FT(refed::matsubara_f(beta, 0), refed::matsubara_f(beta, -1), refed::matsubara_f(beta, 0)));
            std::vector<std::array<int,4> > tups; for (int i = 0; i < M; ++i) for (int j = 0; j < M; ++j) for (int k = 0; k < M; ++k) for (int l = 0; l < M; ++l) if (M <= 2 || ((i < j && k < l) || (i == j && k == l && M <= 3))) tups.push_back({ i, j, k, l });
            for (auto& t : tups) {
                const AnnihilationOperator& C1 = P.Ops->getAnnihilationOperator(t[0]); const AnnihilationOperator& C2 = P.Ops->getAnnihilationOperator(t[1]); const CreationOperator& X3 = P.Ops->getCreationOperator(t[2]); const CreationOperator& X4 = P.Ops->getCreationOperator(t[3]);
                { TwoParticleGF X(*P.S, *P.H, C1, C2, X3, X4, *P.rho); X.prepare(); X.compute(); volatile double s = std::abs(X(0, -1, 0)); (void)s;
                  Vertex4 V(X, (*P.G)(t[0], t[2]), (*P.G)(t[1], t[3]), (*P.G)(t[0], t[3]), (*P.G)(t[1], t[2])); V.compute(1); s = std::abs(V(0, -1, 0)) + std::abs(V(3, 3, 3)) + std::abs(V(-2, 1, -1)); }
                { TwoParticleGF X(*P.S, *P.H, C1, C2, X3, X4, *P.rho); X.prepare(); X.compute(false, none, P.comm); }
                { TwoParticleGF X(*P.S, *P.H, C1, C2, X3, X4, *P.rho); X.prepare(); X.compute(true, none, P.comm); }
                { TwoParticleGF X(*P.S, *P.H, C1, C2, X3, X4, *P.rho); X.prepare(); X.compute(true, some, P.comm); }
                rec.evaluations++;
            }
            for (int split = 0; split < 2; ++split) for (int fl = 0; fl < 2; ++fl) { TwoParticleGFContainer X(*P.IC, *P.S, *P.H, *P.rho, *P.Ops); std::set<IndexCombination4> want; for (auto& t : tups) want.insert(IndexCombination4(t[0], t[1], t[2], t[3])); X.prepareAll(want); X.computeAll(false, fl ? some : none, P.comm, split); rec.evaluations++; }
        }
    }, clk);
    // index bookkeeping with heterogeneous sites in both ordering modes (anchor: IndexClassification)
    for (const char* sid : { "S4", "S4r", "S8" }) for (int mode = 0; mode < 2; ++mode) { if (a.shard != 0) break; marker(std::string("C17 index classification ") + sid + " order_spins=" + std::to_string(mode)); Shape sh = make_shape(sid); Lattice L; build_sites(L, sh); IndexClassification IC(L.getSiteMap()); IC.prepare(mode); for (unsigned i = 0; i < IC.getIndexSize(); ++i) { volatile unsigned s = IC.getIndex(IC.getInfo(i)); (void)s; } rec.evaluations++; }
    return 0;
}
int run(const Args& a, Recorder& rec) { return run_sweep(a, rec, false); }
int run_mem(const Args& a, Recorder& rec) { return run_sweep(a, rec, true); }
} // namespace
REGISTER_CHECK("C17", run);
REGISTER_CHECK("C17M", run_mem);

