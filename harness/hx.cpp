// hx -- one executable, many checks.  usage: hx <check> [--tier quick|thorough] [--shard i/n] [--out f.json] [--only <filter>]
#include "../engines/harness.hpp"
#include "checks.hpp"

using namespace mx;

std::map<std::string, CheckFn>& registry() { static std::map<std::string, CheckFn> r; return r; }

int main(int argc, char** argv) {
    boost::mpi::environment env(argc, argv);
    Args a = Args::parse(argc, argv);
    if (a.check == "list") { for (auto& kv : registry()) printf("%s\n", kv.first.c_str()); return 0; }
    if (a.check == "selftest") { std::string s = refed::selftest(); if (!s.empty()) { fprintf(stderr, "refed selftest failed: %s\n", s.c_str()); return 2; } printf("refed selftest OK\n"); return 0; }
    auto it = registry().find(a.check);
    if (it == registry().end()) { fprintf(stderr, "unknown check %s\n", a.check.c_str()); return 2; }
    { std::string s = refed::selftest(); if (!s.empty()) { fprintf(stderr, "ENGINE-ERROR refed selftest failed: %s\n", s.c_str()); return 2; } }
    Recorder rec; rec.check = a.check; Clock clk; int rc = 0;
    try {
        Quiet q;
        rc = it->second(a, rec);
    } catch (std::exception& e) {
        fprintf(stderr, "ENGINE-ERROR uncaught exception in harness: %s\n", e.what()); rc = 2;
    }
    if (!a.out.empty()) rec.write(a.out, clk.s());
    fprintf(stdout, "check=%s shard=%d/%d states=%ld transitions=%ld evaluations=%ld nontrivial=%ld violations=%zu wall=%.1fs\n",
            a.check.c_str(), a.shard, a.nshards, rec.states, rec.transitions, rec.evaluations, rec.nontrivial, rec.viol.size(), clk.s());
    if (rc == 2) return 2;
    return rec.viol.empty() ? 0 : 1;
}
