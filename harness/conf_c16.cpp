// conformance driver for C16 on the REAL MPI (Open MPI under mpiexec): the same dispatcher loops as harness/vx_c16.cpp,
// jobs sleep pseudo-random times so the dynamic assignment varies; every rank prints what it executed and the map it got.
// bin/conformance.py checks the oracle on the output and that the observed outcome is one the virtual-MPI exploration produced.
#include <boost/mpi.hpp>
#include <mpi_dispatcher/mpi_skel.hpp>
#include <unistd.h>
#include <cstdio>
#include <sstream>
static int g_round = 0; static unsigned g_seed = 1; static std::ostringstream g_out;
struct Job { int id, complexity, round; void run() { unsigned h = (g_seed * 2654435761u) ^ (id * 40503u) ^ (round * 9176u); h ^= h >> 13; h *= 2246822519u; h ^= h >> 16; usleep(h % 3000); int r; MPI_Comm_rank(MPI_COMM_WORLD, &r); g_out << "EXEC " << round << " " << id << " " << r << "\n"; } };
int main(int argc, char** argv) {
    boost::mpi::environment env(argc, argv); boost::mpi::communicator world; int rank = world.rank();
    std::string mode = argv[1]; int J = atoi(argv[2]), R = atoi(argv[3]), cx = atoi(argv[4]); g_seed = atoi(argv[5]) * 7919u + rank * 31u;
    std::streambuf* old = std::cout.rdbuf(0);      // the library is chatty
    for (int r = 0; r < R; ++r) {
        if (mode == "skel") {
            pMPI::mpi_skel<Job> skel; skel.parts.resize(J); for (int j = 0; j < J; ++j) { skel.parts[j].id = j; skel.parts[j].round = r; skel.parts[j].complexity = cx == 2 ? ((j % 2 == 0) ? 0 : j) : (cx ? (j * 7 + 3) % 5 + j : 1); }
            std::map<pMPI::JobId, pMPI::WorkerId> m = skel.run(world, false);
            for (auto& kv : m) g_out << "MAP " << rank << " " << r << " " << kv.first << " " << kv.second << "\n";
        } else {
            if (rank == 0) { pMPI::MPIMaster master(world, (size_t)J, false); for (; !master.is_finished();) { master.order(); master.check_workers(); } for (auto& kv : master.DispatchMap) g_out << "MAP 0 " << r << " " << kv.first << " " << kv.second << "\n"; }
            else { pMPI::MPIWorker worker(world, 0); for (; !worker.is_finished();) { worker.receive_order(); if (worker.is_working()) { Job jb; jb.id = worker.current_job(); jb.round = r; jb.complexity = 1; jb.run(); worker.report_job_done(); } } }
            world.barrier();
        }
        g_out << "DONE " << rank << " " << r << "\n";
    }
    std::cout.rdbuf(old);
    // print rank by rank
    for (int p = 0; p < world.size(); ++p) { world.barrier(); if (p == rank) { fputs(g_out.str().c_str(), stdout); fflush(stdout); } }
    return 0;
}
