// C04 -- lattice terms and presets produce exactly the documented Hamiltonian.   DESIGN.md section 7 / C04
#include "checks.hpp"
using namespace mx;

namespace {

// H matrix as the library builds it: IndexHamiltonian -> Operator::actRight -> HamiltonianPart::prepare, symmetries ignored.
// returns false if the partition is not the single block in label order (then C07 is broken, not C04)
bool library_matrix(Pipe& P, refed::Mat& out) {
    P.make_states(SYM_IGNORE);
    if (P.S->NumberOfBlocks() != 1) return false;
    HamiltonianPart part(*P.IC, *P.HS, *P.S, 0); part.prepare();
    const MatrixType& m = part.getMatrix(); int D = P.D; if (m.rows() != D) return false;
    out = refed::Mat::Zero(D, D);
    for (int i = 0; i < D; ++i) for (int j = 0; j < D; ++j) out(P.S->getFockState(BlockNumber(0), i).to_ulong(), P.S->getFockState(BlockNumber(0), j).to_ulong()) = cd(m(i, j));
    return true;
}

refed::Mat Splus(const Shape& sh, const ModeMap& mm, int M) {
    refed::Mat s = refed::Mat::Zero(1 << M, 1 << M);
    for (auto& st : sh.sites) if (st.spin == 2) for (int o = 0; o < st.orb; ++o) s += refed::cdag_op(M, mm(st.label, o, up)) * refed::c_op(M, mm(st.label, o, down));
    return s;
}

static const Args* g_args = 0;
void check_one(Recorder& rec, const Shape& sh, const std::vector<Gen>& hist, const std::string& repr, const std::string& family, bool su2, bool composition = false) {
    if (g_args && !g_args->want(repr)) return;
    marker("C04 " + repr);
    Pipe P;
    try { P.make_lattice(sh, hist); }
    catch (std::exception&) { rec.counters["rejected_by_library"]++; return; }    // undefined combination: C20's business
    rec.evaluations++;
    ModeMap mm = library_order(*P.IC); int M = P.M;
    refed::Mat terms = lattice_H(*P.L, *P.IC);
    refed::Mat doc = refed::Mat::Zero(1 << M, 1 << M);
    if (!composition) {
        for (auto& g : hist) doc += ref_meaning(g, sh, mm, M, 0.5);
    } else {
        // term lists add up: the lattice after the whole history = sum of the lattices after each call alone (differential)
        for (auto& g : hist) { Pipe Q; Q.make_lattice(sh, std::vector<Gen>(1, g)); doc += lattice_H(*Q.L, *Q.IC); }
    }
    double tol = 1e-12 * (1 + maxabs(doc));
    bool all_presets_herm = true; for (auto& g : hist) if (g.kind == RAW && !g.herm) all_presets_herm = false;
    if (maxabs(terms - doc) > tol) {
        std::string k = (composition ? "C04:composition-terms:" : "C04:preset-terms:") + family;
        if (!composition && maxabs(terms - 2.0 * doc) <= tol) k += ":twice-the-documented-operator";
        rec.violation(k, std::string(composition ? "term list after a sequence of calls is not the sum of the single calls" : "stored lattice terms differ from the documented operator") + " (max dev " + std::to_string(maxabs(terms - doc)) + ")", repr);
    }
    refed::Mat lib;
    if (!library_matrix(P, lib)) { rec.counters["not_single_block"]++; return; }
    if (maxabs(lib - terms) > tol) {
        rec.violation("C04:translation:" + family, "Hamiltonian matrix (IndexHamiltonian/actRight/HamiltonianPart) differs from the sum of the lattice's terms (max dev " + std::to_string(maxabs(lib - terms)) + ")", repr);
    }
    // the translation is a function of the lattice: translating again (a second prepare() on the same IndexHamiltonian) gives the same operator
    { P.HS->prepare(); refed::Mat again = P.symbolic_H(); if (maxabs(again - terms) > tol) rec.violation(maxabs(again - 2.0 * terms) <= tol ? "C04:translation:prepare-twice:doubled" : "C04:translation:prepare-twice", "IndexHamiltonian::prepare() called a second time changes the operator (max dev " + std::to_string(maxabs(again - terms)) + ")", repr); }
    if (all_presets_herm && maxabs(lib - lib.adjoint()) > tol)
        rec.violation("C04:hermiticity:" + family, "preset result is not Hermitian", repr);
    if (su2) {
        refed::Mat sp = Splus(sh, mm, M);
        if (maxabs(lib * sp - sp * lib) > 1e-12 * (1 + maxabs(lib))) rec.violation("C04:su2:" + family, "[H,S+] != 0 for a rotationally invariant preset", repr);
        refed::Mat sm = sp.adjoint();
        if (maxabs(lib * sm - sm * lib) > 1e-12 * (1 + maxabs(lib))) rec.violation("C04:su2:" + family, "[H,S-] != 0 for a rotationally invariant preset", repr);
    }
    if (nontrivial_H(terms)) rec.nontrivial++;
}

int run(const Args& a, Recorder& rec) {
    Clock clk; long idx = 0; g_args = &a;
    auto mine = [&]() { return (idx++ % a.nshards) == a.shard; };
    std::vector<double> V = { 0.0, -1.0, 0.5, 2.0 };
    std::vector<cd> VC; for (double v : V) VC.push_back(v);
#ifdef POMEROL_COMPLEX_MATRIX_ELEMENTS
    VC.push_back(cd(0, 1)); VC.push_back(cd(0.5, -0.5));
#endif
    std::vector<std::string> shapes = { "S1", "S2", "S3", "S4", "S4r", "S5", "S6", "S7", "S10", "S11" };      // S10: three orbitals (loops over orbital pairs beyond the first two)
    if (a.thorough()) { shapes.push_back("S8"); shapes.push_back("S12"); }
    // ---- (a) every preset overload x every site (pair) x every argument combination ------------------------------
    for (auto& sid : shapes) {
        Shape sh = make_shape(sid);
        std::vector<std::pair<Gen,std::string> > G;     // generator, family
        auto push = [&](Gen g, const char* fam) { G.push_back(std::make_pair(g, std::string(fam))); };
        for (auto& s : sh.sites) {
            for (cd v : VC) { Gen g; g.kind = LEVEL; g.l1 = s.label; g.v[0] = v.real(); push(g, "addLevel"); }
            for (cd v : VC) { Gen g; g.kind = MAGN; g.l1 = s.label; g.v[0] = v.real(); push(g, "addMagnetization"); }
            for (double U : V) for (double e : V) { Gen g; g.kind = COULOMB_S; g.l1 = s.label; g.v[0] = U; g.v[1] = e; push(g, "addCoulombS"); }
            for (double U : V) for (double J : V) for (double e : { 0.0, 0.5 }) { Gen g; g.kind = COULOMB_P3; g.l1 = s.label; g.v[0] = U; g.v[1] = J; g.v[2] = e; push(g, "addCoulombP3"); }
            for (double U : V) for (double Up : V) for (double J : V) { Gen g; g.kind = COULOMB_P4; g.l1 = s.label; g.v[0] = U; g.v[1] = Up; g.v[2] = J; g.v[3] = -1; push(g, "addCoulombP4"); }
        }
        for (auto& s1 : sh.sites) for (auto& s2 : sh.sites) {
            for (cd v : VC) {
                { Gen g; g.kind = HOP_ALL; g.l1 = s1.label; g.l2 = s2.label; g.v[0] = v; push(g, "addHopping4"); }
                for (int o1 = 0; o1 < s1.orb; ++o1) for (int o2 = 0; o2 < s2.orb; ++o2) {
                    { Gen g; g.kind = HOP_OO; g.l1 = s1.label; g.l2 = s2.label; g.v[0] = v; g.o1 = o1; g.o2 = o2; push(g, "addHopping6"); }
                    for (int z1 = 0; z1 < s1.spin; ++z1) {
                        if (z1 < s2.spin) { Gen g; g.kind = HOP_OOS; g.l1 = s1.label; g.l2 = s2.label; g.v[0] = v; g.o1 = o1; g.o2 = o2; g.s1 = z1; push(g, "addHopping7"); }
                        for (int z2 = 0; z2 < s2.spin; ++z2) { Gen g; g.kind = HOP_OOSS; g.l1 = s1.label; g.l2 = s2.label; g.v[0] = v; g.o1 = o1; g.o2 = o2; g.s1 = z1; g.s2 = z2; push(g, "addHopping8"); }
                    }
                }
            }
            for (double v : V) { Gen g; g.kind = SZSZ; g.l1 = s1.label; g.l2 = s2.label; g.v[0] = v; push(g, "addSzSz"); }
            for (double v : V) { Gen g; g.kind = SS; g.l1 = s1.label; g.l2 = s2.label; g.v[0] = v; push(g, "addSS"); }
        }
        for (auto& gf : G) {
            if (!mine()) continue;
            const Gen& g = gf.first; const SiteSpec* s1 = sh.find(g.l1); const SiteSpec* s2 = sh.find(g.l2);
            // presets are only *defined* on some site shapes (documentation); outside that domain rejection/acceptance is C20's subject
            bool defined = true;
            if (g.kind == MAGN && s1->spin != 2) defined = false;
            if ((g.kind == COULOMB_P3 || g.kind == COULOMB_P4) && (s1->orb < 2 || s1->spin < 2)) defined = false;
            if ((g.kind == SZSZ || g.kind == SS) && (s1->spin != 2 || s2->spin != 2 || s1->orb != s2->orb)) defined = false;
            if (g.kind == HOP_ALL && (s1->spin != s2->spin || s1->orb != s2->orb)) defined = false;
            if (g.kind == HOP_OO && (s1->spin != s2->spin)) defined = false;
            if (!defined) { rec.counters["outside_documented_domain"]++; continue; }
            bool su2 = (g.kind == COULOMB_P3 && s1->spin == 2) || (g.kind == SS);
            rec.states++; rec.transitions++;
            std::vector<Gen> h(1, g);
            check_one(rec, sh, h, sid + ":" + g.repr(), gf.second, su2);
        }
        rec.sample(sid + ": " + std::to_string(G.size()) + " preset instances, e.g. " + G[G.size() / 2].first.repr());
    }
    // ---- (b) raw user terms: all operator patterns x all index tuples ---------------------------------------------
    {
        struct RawPlan { const char* shape; int nops; std::vector<int> patterns; };   // pattern bits: bit k set = operator k is a creator
        std::vector<RawPlan> RP;
        { RawPlan p; p.shape = "S3"; p.nops = 2; for (int b = 0; b < 4; ++b) p.patterns.push_back(b); RP.push_back(p); }
        { RawPlan p; p.shape = "S2"; p.nops = 4; for (int b = 0; b < 16; ++b) p.patterns.push_back(b); RP.push_back(p); }
        { RawPlan p; p.shape = "S3"; p.nops = 4; p.patterns = { 0x3 /*c+c+cc*/, 0x5 /*c+cc+c*/, 0xA /*cc+cc+*/, 0xC /*ccc+c+*/, 0x6, 0x9 }; RP.push_back(p); }
        { RawPlan p; p.shape = "S1"; p.nops = 4; for (int b = 0; b < 16; ++b) p.patterns.push_back(b); RP.push_back(p); }
        { RawPlan p; p.shape = "S3"; p.nops = 6; p.patterns = { 0x15 /*c+cc+cc+c*/, 0x07 /*c+c+c+ccc*/ }; if (a.thorough()) { p.patterns.push_back(0x2A); p.patterns.push_back(0x38); p.patterns.push_back(0x0B); } RP.push_back(p); }
        { RawPlan p; p.shape = "S3"; p.nops = 3; p.patterns = { 0x1, 0x3 }; RP.push_back(p); }     // odd terms are representable too
        { RawPlan p; p.shape = "S3"; p.nops = 1; p.patterns = { 0x0, 0x1 }; RP.push_back(p); }
        for (auto& rp : RP) {
            Shape sh = make_shape(rp.shape);
            std::vector<RawOp> modes; for (auto& s : sh.sites) for (int o = 0; o < s.orb; ++o) for (int z = 0; z < s.spin; ++z) { RawOp r; r.creation = false; r.label = s.label; r.orb = o; r.spin = z; modes.push_back(r); }
            int nm = modes.size(); long ntup = 1; for (int k = 0; k < rp.nops; ++k) ntup *= nm;
            for (int pat : rp.patterns) for (long t = 0; t < ntup; ++t) {
                if (!mine()) continue;
                Gen g; g.kind = RAW; g.herm = false; g.v[0] = (t % 2) ? cd(-0.5) : cd(2.0);
#ifdef POMEROL_COMPLEX_MATRIX_ELEMENTS
                if (t % 3 == 0) g.v[0] = cd(0.5, 1.0);
#endif
                long tt = t; for (int k = 0; k < rp.nops; ++k) { RawOp r = modes[tt % nm]; tt /= nm; r.creation = (pat >> k) & 1; g.raw.push_back(r); }
                rec.states++; rec.transitions++;
                std::vector<Gen> h(1, g);
                check_one(rec, sh, h, std::string(rp.shape) + ":" + g.repr(), "raw" + std::to_string(rp.nops), false);
            }
            rec.sample(std::string(rp.shape) + ": raw terms with " + std::to_string(rp.nops) + " operators, " + std::to_string(rp.patterns.size()) + " patterns x " + std::to_string(ntup) + " index tuples");
        }
    }
    // ---- (c) compositions: BFS depth 2 over the model alphabet (term lists add up) ----------------------------------
    {
        std::vector<PlanItem> plan;
        for (const char* s : { "S1", "S4", "S6", "S7" }) { PlanItem it; it.shape = s; it.depth = a.thorough() ? 2 : (std::string(s) == "S1" || std::string(s) == "S4" ? 2 : 1); plan.push_back(it); }
        if (a.thorough()) { PlanItem it; it.shape = "S1"; it.depth = 3; plan[0] = it; }
        std::string bounds;
        for (auto& it : plan) {
            Shape sh = make_shape(it.shape); std::vector<Gen> A = alphabet(sh, it.opts);
#ifdef POMEROL_COMPLEX_MATRIX_ELEMENTS
            add_complex_gens(sh, A);
#endif
            BFSResult R = bfs_models(sh, A, it.depth);
            rec.enum_states += R.states.size(); rec.enum_transitions += R.transitions;
            bounds += it.shape + ":d" + std::to_string(it.depth) + ":" + std::to_string(R.states.size()) + "st ";
            for (size_t i = 0; i < R.states.size(); ++i) {
                if (!mine()) continue;
                rec.states++;
                std::vector<Gen> h = hist_gens(A, R.states[i].hist);
                check_one(rec, sh, h, hist_repr(sh, A, R.states[i].hist), "bfs", false, true);
            }
        }
        rec.bound = "presets: all overloads x sites x values on S1..S7(+S8,S10); raw: 1,2,3,4,6-operator terms; compositions " + bounds;
    }
    (void)clk;
    return 0;
}
} // namespace
REGISTER_CHECK("C04", run);
