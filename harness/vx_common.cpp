#include "vx_checks.hpp"
#include <fstream>
#include <sstream>
#include <sys/stat.h>
#include <unistd.h>
namespace mx {
std::map<std::string, VxFactory>& vx_factories() { static std::map<std::string, VxFactory> f; return f; }
const char* vx_kind_name(int k) { static const char* n[] = { "ok", "deadlock", "collective-mismatch", "exception", "step-horizon", "diverged", "oracle-violation", "cut" }; return (k >= 0 && k < 8) ? n[k] : "?"; }

static std::string root_dir() { char buf[4096]; ssize_t n = readlink("/proc/self/exe", buf, sizeof(buf) - 1); std::string p(buf, n > 0 ? n : 0); size_t q = p.find("/build/"); return q == std::string::npos ? std::string(".") : p.substr(0, q); }

vmpi::ExploreResult vx_explore(const Args& a, Recorder& rec, const VxConfig& cfg, int bound, double deadline_s, long max_exec, const std::string& property) {
    VxFactory f = vx_factories().at(cfg.harness); VxHarness h = f(cfg);
    vmpi::ExploreCfg ec; ec.mpi = h.mpi; ec.workers = a.nshards > 1 ? std::max(1, 16 / a.nshards) : 16; { const char* w = getenv("VX_WORKERS"); if (w) ec.workers = atoi(w); }
    ec.bound = bound; ec.deadline_s = deadline_s; ec.max_exec = max_exec; ec.tmpdir = root_dir() + "/build/out/vx_tmp"; ec.label = property; ec.child_timeout_s = (property == "C16") ? 2 : 20;
    marker(property + " " + cfg.str());
    {   // determinism self-check of the engine on this configuration: the default schedule executed twice gives the same observation trace
        std::string t1, t2; std::vector<int> none; vmpi::replay_schedule(ec, h.body, h.oracle, h.reset, none, &t1); vmpi::replay_schedule(ec, h.body, h.oracle, h.reset, none, &t2);
        if (t1 != t2) throw std::runtime_error("engine nondeterminism: the default schedule of " + cfg.str() + " gave two different observation traces: [" + t1 + "] vs [" + t2 + "]");
        rec.counters["determinism_self_checks"]++;
    }
    vmpi::ExploreResult R = vmpi::explore(ec, h.body, h.oracle, h.reset);
    rec.states += R.states; rec.transitions += R.transitions; rec.evaluations += R.executions; rec.traces += R.executions;
    if (!R.exhaustive) { rec.exhaustive = false; rec.note("not exhausted: " + cfg.str() + " (" + std::to_string(R.executions) + " executions)"); }
    if (!R.engine_error.empty()) throw std::runtime_error("vmpi engine error in " + cfg.str() + ": " + R.engine_error);
    for (auto& fd : R.found) {
        // replay file: configuration + schedule.  Confirm determinism: replay twice, identical observations
        std::string dir = root_dir() + "/build/out/vx_replays"; mkdir((root_dir() + "/build/out").c_str(), 0755); mkdir(dir.c_str(), 0755);
        static int counter = 0; std::string path = dir + "/" + property + "." + std::to_string(getpid()) + "." + std::to_string(counter++) + ".json";
        std::ofstream o(path.c_str()); o << "{\"harness\": \"" << cfg.harness << "\", \"params\": {"; bool first = true; for (auto& kv : cfg.p) { o << (first ? "" : ", ") << "\"" << kv.first << "\": " << kv.second; first = false; }
        o << "}, \"kind\": \"" << vx_kind_name(fd.kind) << "\", \"detail\": \"" << jesc(fd.detail) << "\", \"deviations\": " << fd.deviations << ", \"choices\": ["; for (size_t i = 0; i < fd.choices.size(); ++i) o << (i ? "," : "") << fd.choices[i]; o << "]}\n"; o.close();
        std::string t1, t2; int k1 = vmpi::replay_schedule(ec, h.body, h.oracle, h.reset, fd.choices, &t1), k2 = vmpi::replay_schedule(ec, h.body, h.oracle, h.reset, fd.choices, &t2);
        if (t1 != t2 || k1 != k2) throw std::runtime_error("engine nondeterminism: replaying the same schedule twice gave different observations: [" + t1 + "] vs [" + t2 + "]");
        if (k1 == vmpi::Outcome::OK && fd.detail.find("watchdog") != std::string::npos) {   // the schedule, replayed alone with a longer limit, runs to completion: the watchdog fired on a slow machine, not on a hang
            rec.note("an execution stopped by the watchdog ran to completion when its schedule was replayed alone: discarded (" + cfg.str() + ")"); rec.exhaustive = false; unlink(path.c_str()); continue; }
        if (k1 == vmpi::Outcome::OK) throw std::runtime_error("engine error: a recorded counterexample does not reproduce: " + cfg.str());
        std::string key = property + ":" + vx_kind_name(fd.kind) + ":" + cfg.harness;
        // key refinement: the parameters that select the failing code path
        for (auto& kv : cfg.p) if (kv.first == "split" || kv.first == "P" || kv.first == "clear" || kv.first == "comps") key += ":" + kv.first + "=" + std::to_string(kv.second);
        rec.violation(key, std::string(vx_kind_name(fd.kind)) + ": " + fd.detail, "VXREPLAY " + path + " | " + cfg.str() + " | deviations=" + std::to_string(fd.deviations) + " schedule_length=" + std::to_string(fd.choices.size()));
    }
    return R;
}

int vx_replay(const std::string& file) {
    std::ifstream f(file.c_str()); std::stringstream ss; ss << f.rdbuf(); std::string s = ss.str(); if (s.empty()) { fprintf(stderr, "cannot read %s\n", file.c_str()); return 2; }
    auto str_field = [&](const std::string& k) { size_t p = s.find("\"" + k + "\": \""); if (p == std::string::npos) return std::string(); p += k.size() + 5; size_t q = s.find("\"", p); return s.substr(p, q - p); };
    VxConfig cfg; cfg.harness = str_field("harness");
    { size_t p = s.find("\"params\": {"); size_t q = s.find("}", p); std::string body = s.substr(p + 11, q - p - 11); std::istringstream is(body); std::string tok; while (std::getline(is, tok, ',')) { size_t c = tok.find(':'); if (c == std::string::npos) continue; std::string k = tok.substr(0, c); k.erase(0, k.find('"') + 1); k.erase(k.find('"')); cfg.p[k] = atol(tok.substr(c + 1).c_str()); } }
    std::vector<int> choices; { size_t p = s.find("\"choices\": ["); size_t q = s.find("]", p); std::istringstream is(s.substr(p + 12, q - p - 12)); std::string tok; while (std::getline(is, tok, ',')) if (!tok.empty()) choices.push_back(atoi(tok.c_str())); }
    VxHarness h = vx_factories().at(cfg.harness)(cfg); vmpi::ExploreCfg ec; ec.mpi = h.mpi; ec.tmpdir = root_dir() + "/build/out/vx_tmp"; ec.label = "replay";
    std::string t1, t2; int k1 = vmpi::replay_schedule(ec, h.body, h.oracle, h.reset, choices, &t1), k2 = vmpi::replay_schedule(ec, h.body, h.oracle, h.reset, choices, &t2);
    printf("replaying %s : %zu choices\n run 1: %s\n run 2: %s\n", cfg.str().c_str(), choices.size(), t1.c_str(), t2.c_str());
    if (t1 != t2) { printf("ENGINE-ERROR: nondeterministic replay\n"); return 2; }
    printf("%s\n", k1 == vmpi::Outcome::OK ? "schedule completes and satisfies the oracle" : "VIOLATION reproduced");
    return k1 == vmpi::Outcome::OK ? 0 : 1;
}
}
