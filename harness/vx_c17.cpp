// C17 on the MPI paths: the C06 workflow bodies executed (default schedule, in-process) on the sanitizer build
#include "vx_checks.hpp"
using namespace mx;
namespace {
int run_c17v(const Args& a, Recorder& rec) {
    long idx = 0;
    for (int model : { 2, 1 }) for (int P : { 1, 2, 3 }) for (int split = 0; split < 2; ++split) for (int clear = 0; clear < 2; ++clear) {
        if ((idx++ % a.nshards) != a.shard) continue;
        VxConfig c; c.harness = "c06"; c.p["model"] = model; c.p["P"] = P; c.p["phase"] = 3; c.p["comps"] = 3; c.p["clear"] = clear; c.p["split"] = split; c.p["rdv"] = 0; c.p["omp"] = (P == 1) ? 3 : 1; c.p["ompord"] = 1;
        marker("C17 vmpi " + c.str()); VxHarness h = vx_factories().at("c06")(c); h.reset(); int last = -1;
        vmpi::Outcome o = vmpi::run(h.mpi, h.body, [&](size_t, const std::vector<int>& en, const std::vector<char>& prod, uint64_t, uint64_t) { for (size_t j = 0; j < en.size(); ++j) if (en[j] == last && prod[j]) return last; for (size_t j = 0; j < en.size(); ++j) if (prod[j]) return last = en[j]; return last = en[0]; });
        rec.states++; rec.transitions += o.points.size(); rec.evaluations++; rec.traces++; if (P > 1) rec.nontrivial++;
        rec.sample("vmpi default schedule: " + c.str() + " -> " + vx_kind_name(o.kind) + " after " + std::to_string(o.points.size()) + " scheduling points");
        // a failing run here is C06's business; C17 only collects sanitizer reports
        if (o.kind != vmpi::Outcome::OK) rec.note("non-OK outcome (reported under C06): " + c.str() + " " + o.detail.substr(0, 200));
    }
    return 0;
}
}
REGISTER_VX("C17V", run_c17v);
