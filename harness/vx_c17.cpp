// C17 on the MPI paths: the C06 workflow bodies executed (default schedule, in-process) on the sanitizer build
#include "vx_checks.hpp"
using namespace mx;
namespace {
int run_c17v(const Args& a, Recorder& rec) {
    long idx = 0;
    for (int model : { 2, 1 }) for (int P : { 1, 2, 3 }) for (int split = 0; split < 2; ++split) for (int clear = 0; clear < 2; ++clear) {
        if ((idx++ % a.nshards) != a.shard) continue;
        VxConfig c; c.harness = "c06"; c.p["model"] = model; c.p["P"] = P; c.p["phase"] = 3; c.p["comps"] = 3; c.p["clear"] = clear; c.p["split"] = split; c.p["rdv"] = 0; c.p["omp"] = (P == 1) ? 3 : 1; c.p["ompord"] = 1;
        marker("C17 vmpi " + c.str()); VxHarness h = vx_factories().at("c06")(c); h.reset(); int last = -1;
        vmpi::Outcome o = vmpi::run(h.mpi, h.body, [&](size_t, const std::vector<int>& en, const std::vector<char>& prod, uint64_t, uint64_t) { for (size_t j = 0; j < en.size(); ++j) if (en[j] == last && prod[j]) return last; for (size_t j = 0; j < en.size(); ++j) if (prod[j]) return last = en[j]; return last = en[0]; });
        rec.states++; rec.transitions += o.points.size(); rec.evaluations++; rec.traces++; if (P > 1) rec.nontrivial++;
        rec.sample("vmpi default schedule: " + c.str() + " -> " + vx_kind_name(o.kind) + " after " + std::to_string(o.points.size()) + " scheduling points");
        // a failing run here is C06's business; C17 only collects sanitizer reports
        if (o.kind != vmpi::Outcome::OK) rec.note("non-OK outcome (reported under C06): " + c.str() + " " + o.detail.substr(0, 200));
    }
    return 0;
}
}
REGISTER_VX("C17V", run_c17v);
// free-running OpenMP team under ThreadSanitizer (tsan build): the serialising scheduler blinds a race detector, so the
// loop bodies of ComputeAndClearWrap::run are run here on really concurrent threads; a TSan report is a C06 violation.
namespace {
int run_c06t(const Args& a, Recorder& rec) {
    long idx = 0;
    for (int model : { 1, 3 }) for (int T : { 2, 4, 16 }) for (int clear = 0; clear < 2; ++clear) for (int phase : { 2, 3 }) {
        if ((idx++ % a.nshards) != a.shard) continue; if (model == 3 && (T == 16 || phase == 3) && !a.thorough()) continue;
        VxConfig c; c.harness = "c06"; c.p["model"] = model; c.p["P"] = 1; c.p["phase"] = phase; c.p["comps"] = 2; c.p["clear"] = clear; c.p["split"] = 0; c.p["rdv"] = 0; c.p["omp"] = T; c.p["ompord"] = 0; c.p["freqrep"] = 24;
        marker("C06 free-running OpenMP team " + c.str()); VxHarness h = vx_factories().at("c06")(c); h.mpi.omp_free = true; h.reset();
        // GCC's ThreadSanitizer does not instrument aggregate (std::complex) stores, so besides its reports the values are compared too,
        // and each configuration is repeated: on race-free code every repetition gives the single-thread values, so this can never alarm falsely
        vmpi::Outcome o; std::string sig, viol; int reps = a.thorough() ? 40 : 12;
        for (int rep = 0; rep < reps && viol.empty(); ++rep) { h.reset(); o = vmpi::run(h.mpi, h.body, [&](size_t, const std::vector<int>& en, const std::vector<char>&, uint64_t, uint64_t) { return en[0]; }); if (o.kind != vmpi::Outcome::OK) break; viol = h.oracle(o, sig); rec.evaluations++; rec.traces++; }
        rec.states++; rec.transitions += o.points.size(); rec.nontrivial++;
        rec.sample("free-running team of " + std::to_string(T) + " threads: " + c.str() + " -> " + vx_kind_name(o.kind) + (viol.empty() ? "" : " oracle: " + viol));
        if (o.kind != vmpi::Outcome::OK) rec.violation("C06:openmp-free:" + std::string(vx_kind_name(o.kind)), o.detail, c.str());
        else if (!viol.empty()) rec.violation("C06:openmp-free:result-differs", "with " + std::to_string(T) + " concurrently running OpenMP threads: " + viol, c.str());
    }
    return 0;
}
}
REGISTER_VX("C06T", run_c06t);
