// C01 (G_ij(i w_n) equals its definition, two object paths), C11 (symmetry, sum rules, tau/frequency duality)
#include "checks.hpp"
using namespace mx;

namespace {

// reference Lehmann representation of G_ij plus the allowance the property grants: the terms the library documents it drops
// (residue below 1e-8) and merges (poles within 1e-8).  Allowances are computed per pair of degenerate clusters with
// basis-independent norms, thresholds doubled so that a term sitting on a cut can fall either way.
struct GFRef {
    refed::Lehmann1 L; double drop_res; std::vector<double> dropR, dropP;   // per cluster pair: max total residue that may be dropped, and its pole
    GFRef(const refed::Spectrum& sp, const refed::Mat& Ci, const refed::Mat& CXj) : drop_res(0) {
        L = refed::gf_terms(sp, Ci, CXj); int D = sp.D;
        std::vector<int> cl(D, 0); int nc = 0; for (int a = 1; a < D; ++a) { if (sp.E(a) - sp.E(a - 1) > 1e-6) ++nc; cl[a] = nc; } ++nc;
        std::vector<std::vector<int> > mem(nc); for (int a = 0; a < D; ++a) mem[cl[a]].push_back(a);
        for (int A = 0; A < nc; ++A) for (int B = 0; B < nc; ++B) {
            double fc = 0, fx = 0, W = 0;
            for (int a : mem[A]) for (int b : mem[B]) { fc += std::norm(Ci(a, b)); fx += std::norm(CXj(b, a)); W = std::max(W, sp.w(a) + sp.w(b)); }
            double tot = W * std::sqrt(fc) * std::sqrt(fx); if (tot < 1e-300) continue;
            double cap = (mem[A].size() * mem[B].size() + 1) * 2e-8; double d = std::min(tot, cap);
            dropR.push_back(d); dropP.push_back(sp.E(mem[B][0]) - sp.E(mem[A][0])); drop_res += d;
        }
    }
    double drop_at(cd z) const { double s = 0; for (size_t k = 0; k < dropR.size(); ++k) s += dropR[k] / std::max(1e-300, std::abs(z - dropP[k]) - 2e-6); return s; }
    double merge_at(cd z) const { double s = 0; for (size_t k = 0; k < L.R.size(); ++k) { double d = std::abs(z - L.P[k]); s += std::abs(L.R[k]) / (d * d); } return 2e-8 * s; }
    double tol_at(cd z, double S) const { return 1e-7 * S + drop_at(z) + merge_at(z) + 1e-14; }      // absolute floor: at beta x gap ~ 700 the reference itself is a denormal number
};

std::string sci(cd v) { char b[96]; snprintf(b, sizeof b, "(%.6e,%.6e)", v.real(), v.imag()); return b; }

std::vector<long> matsubara_set() { std::vector<long> n; for (long k = -3; k <= 2; ++k) n.push_back(k); n.push_back(50); n.push_back(-50); return n; }


// ---- the container of all components: BFS over call histories of one GFContainer (prepareAll with several index sets, computeAll,
//      lookups through both operator() overloads, on-demand elements) -- whatever was prepared / requested before, a component that
//      is stored under (i,j) IS the component (i,j), a lookup returns the stored element, and a computed element equals the stand-alone one
void container_histories(const Args& a, Recorder& rec, Clock& clk) {
    std::vector<PlanItem> plan; for (const char* sid : { "S2", "S4", "S11" }) { PlanItem it; it.shape = sid; it.depth = 1; it.opts.rich = false; plan.push_back(it); }
    int maxdepth = a.thorough() ? 4 : 3; std::vector<long> ns = { -2, 0, 1 }; double beta = 5;
    for_each_state(a, rec, plan, [&](Ctx& c) {
        if (c.st.hist.empty()) return;                      // need some hybridisation: skip the empty model
        if (stage_states(c, rec, SYM_DEFAULT, 0, false) != ST_OK) return;
        Pipe& P = c.P; int M = std::min(P.M, 3); P.make_hamiltonian(); P.make_rho(beta); P.make_ops();
        std::map<std::pair<int,int>, std::vector<cd> > direct;
        for (int i = 0; i < M; ++i) for (int j = 0; j < M; ++j) { GreensFunction G(*P.S, *P.H, P.Ops->getAnnihilationOperator(i), P.Ops->getCreationOperator(j), *P.rho); G.prepare(); G.compute(); for (long n : ns) direct[std::make_pair(i, j)].push_back(G(n)); }
        struct Op { int kind; std::vector<std::pair<int,int> > set; int i, j; std::string repr; }; std::vector<Op> A;
        auto prep = [&](std::vector<std::pair<int,int> > st, const char* nm) { Op o; o.kind = 0; o.set = st; o.i = o.j = 0; o.repr = std::string("prepareAll(") + nm + ")"; A.push_back(o); };
        prep({}, "all"); prep({ { 0, 1 } }, "{01}"); prep({ { 1, 0 }, { 0, 0 } }, "{10,00}"); prep({ { M - 1, 0 } }, "{last,0}");
        { Op o; o.kind = 1; o.i = o.j = 0; o.repr = "computeAll()"; A.push_back(o); }
        for (int i = 0; i < M; ++i) for (int j = 0; j < M; ++j) { std::string q = std::to_string(i) + "," + std::to_string(j);
            { Op o; o.kind = 2; o.i = i; o.j = j; o.repr = "G(" + q + ")"; A.push_back(o); } { Op o; o.kind = 3; o.i = i; o.j = j; o.repr = "G(IndexCombination2(" + q + "))"; A.push_back(o); } { Op o; o.kind = 4; o.i = i; o.j = j; o.repr = "G(" + q + ").prepare+compute"; A.push_back(o); } }
        auto hrepr = [&](const std::vector<int>& h) { std::string s = c.repr + " | container: "; for (size_t k = 0; k < h.size(); ++k) { s += (k ? ";" : ""); s += A[h[k]].repr; } return s; };
        auto replay = [&](const std::vector<int>& h, bool check, std::string& key) {
            GFContainer X(*P.IC, *P.S, *P.H, *P.rho, *P.Ops); std::string hr = hrepr(h);
            for (size_t st = 0; st < h.size(); ++st) { const Op& o = A[h[st]];
                if (o.kind == 0) { std::set<IndexCombination2> s; for (auto& q : o.set) s.insert(IndexCombination2(q.first, q.second)); X.prepareAll(s); }
                else if (o.kind == 1) X.computeAll();
                else { GreensFunction* e = (o.kind == 3) ? &X(IndexCombination2(o.i, o.j)) : &X(o.i, o.j);
                    if (check && st + 1 == h.size()) { rec.evaluations++; auto it = X.ElementsMap.find(IndexCombination2(o.i, o.j));
                        if (it == X.ElementsMap.end() || it->second.get() != e) rec.violation(std::string("C01:container:lookup-returns-other-element:") + (o.kind == 3 ? "IndexCombination2" : "two-index"), "a lookup does not return the element stored under the requested index pair", hr); }
                    if (o.kind == 4) { e->prepare(); e->compute(); } } }
            std::ostringstream ks; for (auto it = X.ElementsMap.begin(); it != X.ElementsMap.end(); ++it) ks << it->first.Index1 << it->first.Index2 << ":" << it->second->getStatus() << ":" << it->second->getIndex(0) << it->second->getIndex(1) << ";"; key = ks.str();
            if (!check) return;
            for (auto it = X.ElementsMap.begin(); it != X.ElementsMap.end(); ++it) { int i = it->first.Index1, j = it->first.Index2; GreensFunction& e = *it->second; rec.evaluations++;
                if ((int)e.getIndex(0) != i || (int)e.getIndex(1) != j) { rec.violation("C01:container:element-has-other-indices", "the element stored under (i,j) is a Green's function of other indices", hr + " element " + std::to_string(i) + std::to_string(j)); continue; }
                if (e.getStatus() == ComputableObject::Computed && i < M && j < M) for (size_t k = 0; k < ns.size(); ++k) { cd v = e(ns[k]), d = direct[std::make_pair(i, j)][k];
                    if (std::abs(v - d) > 1e-10 * (1 + std::abs(d))) { rec.violation("C01:container:value-depends-on-history", "a computed container element differs from the stand-alone Green's function of the same indices", hr + " element " + std::to_string(i) + std::to_string(j)); break; } } }
        };
        std::unordered_set<std::string> seen; std::vector<std::vector<int> > frontier(1), next; { std::string k; replay(frontier[0], false, k); seen.insert(k); }
        for (int d = 0; d <= maxdepth; ++d) { next.clear();
            for (auto& h : frontier) { std::string k; replay(h, true, k); rec.counters["container_states"]++; if (d == maxdepth) continue;
                for (size_t o = 0; o < A.size(); ++o) { std::vector<int> h2 = h; h2.push_back((int)o); rec.counters["container_transitions"]++; std::string k2; replay(h2, false, k2); if (seen.insert(k2).second) next.push_back(h2); else if (A[o].kind >= 2) { std::string k3; replay(h2, true, k3); } } }
            frontier.swap(next); if (clk.s() > a.deadline) { rec.exhaustive = false; break; } }
    }, clk);
}

int run_c01(const Args& a, Recorder& rec) {
    Clock clk; std::vector<double> betas = { 0.5, 5, 40 }; if (a.thorough()) { betas.push_back(1e-3); betas.push_back(1e3); }
    std::vector<SymMode> modes = { SYM_DEFAULT, SYM_IGNORE }; std::vector<long> ns = matsubara_set();
    for_each_state(a, rec, plan_modelspace(a, "G"), [&](Ctx& c0) {
        bool counted = false;
        for (SymMode mode : modes) {
            Ctx c; c.sh = c0.sh; c.A = c0.A; c.st = c0.st; c.repr = c0.repr;
            if (stage_states(c, rec, mode, 0, false) != ST_OK) continue;
            Pipe& P = c.P; int M = P.M; P.make_hamiltonian(); P.make_ops();
            if (!counted && nontrivial_H(c.Href)) { rec.nontrivial++; counted = true; }
            std::vector<std::unique_ptr<CreationOperator> > CX(M); std::vector<std::unique_ptr<AnnihilationOperator> > C(M);
            for (int i = 0; i < M; ++i) { CX[i].reset(new CreationOperator(*P.IC, *P.S, *P.H, i)); CX[i]->prepare(); CX[i]->compute(); C[i].reset(new AnnihilationOperator(*P.IC, *P.S, *P.H, i)); C[i]->prepare(); C[i]->compute(); }
            for (double beta : betas) {
                P.make_rho(beta); P.make_gf();
                refed::Spectrum sp = refed::diagonalize(c.Href, beta);
                std::vector<refed::Mat> rc(M), rcx(M); for (int i = 0; i < M; ++i) { rc[i] = refed::to_eigenbasis(sp, refed::c_op(M, i)); rcx[i] = refed::to_eigenbasis(sp, refed::cdag_op(M, i)); }
                for (int i = 0; i < M; ++i) for (int j = 0; j < M; ++j) {
                    std::string kase = c.repr + " | partition=" + mode_name(mode) + " beta=" + std::to_string(beta) + " G(" + std::to_string(i) + "," + std::to_string(j) + ")";
                    GreensFunction G1(*P.S, *P.H, *C[i], *CX[j], *P.rho); G1.prepare(); G1.compute();
                    GreensFunction& G2 = (*P.G)(i, j);
                    GFRef R(sp, rc[i], rcx[j]);
                    double refmax = 0;
                    for (long n : ns) {
                        rec.evaluations++;
                        cd z = refed::matsubara_f(beta, n); refed::Val ref = refed::gf_eval(R.L, z); refmax = std::max(refmax, std::abs(ref.v));
                        cd g1 = G1(n), g2 = G2(n), g1z = G1(z);
                        if (std::abs(g1 - g2) > 1e-10 * (1 + std::abs(g1)) + 2 * R.drop_at(z)) rec.violation("C01:paths", "stand-alone GreensFunction and GFContainer(i,j) disagree", kase + " n=" + std::to_string(n));
                        if (std::abs(g1 - g1z) > 1e-10 * (1 + std::abs(g1))) rec.violation("C01:matsubara-number", "operator()(long n) differs from operator()(i(2n+1)pi/beta)", kase + " n=" + std::to_string(n));
                        double tol = R.tol_at(z, ref.S);
                        if (!rec.within(std::abs(g1 - ref.v), tol, kase)) rec.violation(std::string("C01:value:") + (i == j ? "diagonal" : "offdiagonal"), "G_ij(iw_n) differs from the exact-diagonalisation value: lib=" + sci(g1) + " ref=" + sci(ref.v) + " tol=" + sci(cd(tol, 0)) + " scale=" + sci(cd(ref.S, 0)) + " drop=" + sci(cd(R.drop_at(z), 0)) + " merge=" + sci(cd(R.merge_at(z), 0)), kase + " n=" + std::to_string(n));
                        if (!rec.within(std::abs(g2 - ref.v), tol, kase)) rec.violation(std::string("C01:value-container:") + (i == j ? "diagonal" : "offdiagonal"), "GFContainer G_ij(iw_n) differs from the exact-diagonalisation value", kase + " n=" + std::to_string(n));
                    }
                    if (refmax > 1e-6 && G1.isVanishing()) rec.violation("C01:vanishing", "isVanishing() is true for a non-vanishing component", kase);
                    // copies: a copy of a computed object, a copy on which the documented prepare()/compute() are called again, a copy of a copy taken
                    // from the container, and a copy made between prepare() and compute() all return the value of the original
                    { GreensFunction K1(G1); GreensFunction K2(G1); K2.prepare(); K2.compute(); GreensFunction K3(G2); GreensFunction K4(K3); K4.prepare(); K4.compute();
                      GreensFunction P0(*P.S, *P.H, *C[i], *CX[j], *P.rho); P0.prepare(); GreensFunction K5(P0); K5.compute();
                      GreensFunction* ks[5] = { &K1, &K2, &K3, &K4, &K5 }; const char* kn[5] = { "copy", "copy+prepare+compute", "copy-of-container-element", "copy-of-copy+prepare+compute", "copy-of-prepared+compute" };
                      for (int q = 0; q < 5; ++q) for (long n : { -1L, 0L, 2L }) { rec.evaluations++; cd v = (*ks[q])(n), o = (q == 2 || q == 3) ? G2(n) : G1(n);
                          if (std::abs(v - o) > 1e-12 * (1 + std::abs(o))) { rec.violation(std::string("C01:copy:") + kn[q], "a copied Green's function returns a different value from the object it was copied from", kase + " n=" + std::to_string(n)); break; }
                          if (ks[q]->getIndex(0) != (unsigned)i || ks[q]->getIndex(1) != (unsigned)j || ks[q]->isVanishing() != G1.isVanishing()) { rec.violation(std::string("C01:copy:") + kn[q], "a copied Green's function has other indices / another isVanishing() than its original", kase); break; } } }
                }
            }
        }
    }, clk);
    container_histories(a, rec, clk);
    return 0;
}

int run_c11(const Args& a, Recorder& rec) {
    Clock clk; std::vector<double> betas = { 0.5, 5, 40, 1e3 };
    std::vector<SymMode> modes = { SYM_DEFAULT }; if (a.thorough()) modes.push_back(SYM_IGNORE);
    for_each_state(a, rec, plan_modelspace(a, "G"), [&](Ctx& c0) {
        bool counted = false;
        for (SymMode mode : modes) {
            Ctx c; c.sh = c0.sh; c.A = c0.A; c.st = c0.st; c.repr = c0.repr;
            if (stage_states(c, rec, mode, 0, false) != ST_OK) continue;
            Pipe& P = c.P; int M = P.M; P.make_hamiltonian(); P.make_ops();
            if (!counted && nontrivial_H(c.Href)) { rec.nontrivial++; counted = true; }
            for (double beta : betas) {
                P.make_rho(beta); P.make_gf();
                refed::Spectrum sp = refed::diagonalize(c.Href, beta);
                std::vector<refed::Mat> rc(M), rcx(M); for (int i = 0; i < M; ++i) { rc[i] = refed::to_eigenbasis(sp, refed::c_op(M, i)); rcx[i] = refed::to_eigenbasis(sp, refed::cdag_op(M, i)); }
                std::vector<cd> zs; for (long n : matsubara_set()) zs.push_back(refed::matsubara_f(beta, n));
                zs.push_back(cd(1, 2)); zs.push_back(cd(-0.5, 0.1)); zs.push_back(cd(0, 3)); zs.push_back(cd(0, 1e6)); zs.push_back(cd(1e6, 0));
                std::vector<double> taus = { 0, beta / 4, beta / 2, 3 * beta / 4, beta };
                for (int i = 0; i < M; ++i) for (int j = 0; j < M; ++j) {
                    std::string kase = c.repr + " | partition=" + mode_name(mode) + " beta=" + std::to_string(beta) + " G(" + std::to_string(i) + "," + std::to_string(j) + ")";
                    GreensFunction& Gij = (*P.G)(i, j); GreensFunction& Gji = (*P.G)(j, i);
                    GFRef R(sp, rc[i], rcx[j]); double Pmax = 0, RP = 0; for (size_t k = 0; k < R.L.R.size(); ++k) { Pmax = std::max(Pmax, std::abs(R.L.P[k])); RP += std::abs(R.L.R[k]) * std::abs(R.L.P[k]); }
                    for (cd z : zs) {
                        rec.evaluations++;
                        // skip points closer than 0.05 to a pole of the reference (only the two generic off-axis points can be)
                        bool near_pole = false; for (double p : R.L.P) if (std::abs(z - p) < 0.05) near_pole = true; if (near_pole) { rec.counters["skipped_near_pole"]++; continue; }
                        cd g = Gij(z), gt = Gji(std::conj(z)); refed::Val ref = refed::gf_eval(R.L, z);
                        if (std::abs(std::conj(g) - gt) > 1e-9 * (1 + ref.S) + 2 * R.drop_at(z)) rec.violation("C11:hermitian-symmetry", "conj G_ij(z) != G_ji(conj z)", kase + " z=(" + std::to_string(z.real()) + "," + std::to_string(z.imag()) + ")");
                        if (std::abs(z) > 1e5) {
                            double bound = RP / (std::abs(z) - Pmax) + R.drop_res + 1e-9;
                            if (std::abs(z * g - (i == j ? 1.0 : 0.0)) > bound) rec.violation("C11:high-frequency-tail", "z G_ij(z) does not tend to delta_ij", kase);
                        }
                        if (i == j && z.real() == 0 && z.imag() > 0 && !(g.imag() < 0)) rec.violation("C11:negative-imaginary-part", "Im G_ii(i w_n) is not negative for w_n > 0", kase);
                    }
                    cd g0, gb;
                    for (double tau : taus) {
                        rec.evaluations++;
                        cd gl = Gij.of_tau(tau); refed::Val ref = refed::gf_tau(sp, rc[i], rcx[j], tau);
                        double tol = 1e-7 * ref.S + R.drop_res + 1e-8 * beta * ref.S + 1e-10;
                        if (!rec.within(std::abs(gl - ref.v), tol, kase)) rec.violation("C11:of_tau", "G_ij(tau) differs from the imaginary-time definition: lib=" + std::to_string(gl.real()) + " ref=" + std::to_string(ref.v.real()), kase + " tau=" + std::to_string(tau));
                        if (i == j && gl.real() > R.drop_res + 1e-10) rec.violation("C11:tau-negativity", "G_ii(tau) > 0", kase + " tau=" + std::to_string(tau));
                        if (tau == 0) g0 = gl; if (tau == beta) gb = gl;
                    }
                    if (std::abs(g0 + gb + (i == j ? 1.0 : 0.0)) > 2 * R.drop_res + 1e-9) rec.violation("C11:tau-jump", "G_ij(0+) + G_ij(beta-) != -delta_ij", kase);
                    if (i == j && std::abs(gb.real() + P.rho->getAverageOccupancy(i)) > R.drop_res + 1e-8) rec.violation("C11:tau-occupancy", "G_ii(beta-) != -<n_i>", kase);
                }
            }
        }
    }, clk);
    return 0;
}
} // namespace
REGISTER_CHECK("C01", run_c01);
REGISTER_CHECK("C11", run_c11);
