// C06 -- results independent of MPI ranks / OpenMP threads; runs always terminate.  P rank-threads run the documented
// workflow with the communicator passed everywhere it is accepted, over the virtual MPI, all interleavings state-hashed
// (checkpoint digests merge schedules that left identical data), against the single-rank single-thread run.
#include "vx_checks.hpp"
#include <array>
using namespace mx;

namespace {
typedef boost::tuple<ComplexType, ComplexType, ComplexType> FT;
typedef std::map<std::string, std::vector<double> > Dump;
struct Shared { std::map<int, Dump> dump; std::map<int,int> done; } *SH = 0;
static std::map<std::string, Dump> g_reference;     // per configuration-without-P: the P=1, T=1 run

uint64_t digest_doubles(const double* p, size_t n, uint64_t h) { for (size_t i = 0; i < n; ++i) { long long q = llround(p[i] * 1e8); h = vmpi::hash_bytes(&q, sizeof(q), h); } return h; }
void put(Dump& d, const std::string& k, cd v) { d[k].push_back(v.real()); d[k].push_back(v.imag()); }

struct ModelSpec { std::string shape; std::vector<Gen> hist; };
ModelSpec model_of(int id) {
    ModelSpec m;
    if (id == 1) { m.shape = "S1"; Gen g; g.kind = COULOMB_S; g.l1 = "A"; g.v[0] = 2; g.v[1] = -0.5; Gen h; h.kind = MAGN; h.l1 = "A"; h.v[0] = 0.25; m.hist = { g, h }; }
    else if (id == 2) { m.shape = "S2"; Gen h; h.kind = HOP_OOS; h.l1 = "A"; h.l2 = "B"; h.v[0] = -1; Gen l; l.kind = LEVEL; l.l1 = "A"; l.v[0] = 0.5; Gen r; r.kind = RAW; r.v[0] = 2; RawOp x1 = { true, "A", 0, 0 }, x2 = { false, "A", 0, 0 }, x3 = { true, "B", 0, 0 }, x4 = { false, "B", 0, 0 }; r.raw = { x1, x2, x3, x4 }; m.hist = { h, l, r }; }
    else { m.shape = "S6"; Gen u; u.kind = COULOMB_S; u.l1 = "A"; u.v[0] = 2; u.v[1] = -1; Gen u2 = u; u2.l1 = "B"; u2.v[0] = 0.5; u2.v[1] = 0.5; Gen t; t.kind = HOP_ALL; t.l1 = "A"; t.l2 = "B"; t.v[0] = -1; m.hist = { u, u2, t }; }
    return m;
}
const int COMPS[5][4] = { { 0, 1, 0, 1 }, { 0, 0, 0, 0 }, { 1, 1, 1, 1 }, { 1, 0, 0, 1 }, { 0, 1, 1, 0 } };

// the per-rank program.  phase: 1 = distributed H only, 2 = + TwoParticleGF::compute per component, 3 = + container computeAll
void workflow(int rank, const VxConfig& c, Dump& out, bool checkpoints) {
    ModelSpec ms = model_of(c.p.at("model")); Shape sh = make_shape(ms.shape); int ncomp = c.p.at("comps"), phase = c.p.at("phase"); bool clear = c.p.at("clear"), split = c.p.at("split"); double beta = 2.0;
    boost::mpi::communicator comm;
    Pipe P; P.make_lattice(sh, ms.hist); P.make_states(SYM_DEFAULT);
    P.H.reset(new Hamiltonian(*P.IC, *P.HS, *P.S)); P.H->prepare(comm);
    uint64_t dg = 0x11;
    for (BlockNumber b = 0; b < P.S->NumberOfBlocks(); b++) { const MatrixType& m = P.H->getPart(b).getMatrix(); dg = digest_doubles((const double*)m.data(), m.size() * (sizeof(MelemType) / sizeof(double)), dg); dg = vmpi::hash_bytes(&P.H->getPart(b).Status, sizeof(unsigned), dg); for (long i = 0; i < m.size(); ++i) put(out, "Hprep", cd(m.data()[i])); }
    if (checkpoints) vmpi::checkpoint(dg);
    P.H->compute(comm);
    for (BlockNumber b = 0; b < P.S->NumberOfBlocks(); b++) { const HamiltonianPart& hp = P.H->getPart(b); const MatrixType& m = hp.getMatrix(); dg = digest_doubles((const double*)m.data(), m.size() * (sizeof(MelemType) / sizeof(double)), dg); dg = digest_doubles(hp.getEigenValues().data(), hp.getEigenValues().size(), dg); dg = vmpi::hash_bytes(&hp.Status, sizeof(unsigned), dg);
        for (long i = 0; i < m.size(); ++i) put(out, "evec", cd(m.data()[i])); for (long i = 0; i < hp.getEigenValues().size(); ++i) put(out, "eval", hp.getEigenValues()(i)); }
    put(out, "E0", P.H->getGroundEnergy());
    if (checkpoints) vmpi::checkpoint(dg);
    P.make_rho(beta); P.make_ops(); P.make_gf(); int M = P.M;
    for (int i = 0; i < M; ++i) for (int j = 0; j < M; ++j) for (long n = -1; n <= 1; ++n) put(out, "G", (*P.G)(i, j)(n));
    std::vector<FT> freqs; std::vector<std::array<long,3> > tri = { { 0, 0, 0 }, { 0, -1, 0 }, { 1, -2, 0 }, { -1, 0, 1 } };
    for (auto& t : tri) freqs.push_back(FT(refed::matsubara_f(beta, t[0]), refed::matsubara_f(beta, t[1]), refed::matsubara_f(beta, t[2])));
    auto dig_terms = [&](TwoParticleGF& X, uint64_t h) { for (auto* p : X.parts) { h = vmpi::hash_bytes(&p->Status, sizeof(unsigned), h); for (auto& t : p->NonResonantTerms.data) { double v[6] = { t.Coeff.real(), t.Coeff.imag(), t.Poles[0], t.Poles[1], t.Poles[2], double(t.isz4) + 2 * t.Weight }; h = digest_doubles(v, 6, h); } for (auto& t : p->ResonantTerms.data) { double v[8] = { t.ResCoeff.real(), t.ResCoeff.imag(), t.NonResCoeff.real(), t.NonResCoeff.imag(), t.Poles[0], t.Poles[1], t.Poles[2], double(t.isz1z2) + 2 * t.Weight }; h = digest_doubles(v, 8, h); } } return h; };
    if (phase >= 2) for (int k = 0; k < ncomp; ++k) {
        const int* q = COMPS[k]; if (q[0] >= M || q[1] >= M || q[2] >= M || q[3] >= M) continue;
        TwoParticleGF X(*P.S, *P.H, P.Ops->getAnnihilationOperator(q[0]), P.Ops->getAnnihilationOperator(q[1]), P.Ops->getCreationOperator(q[2]), P.Ops->getCreationOperator(q[3]), *P.rho); X.prepare();
        std::vector<ComplexType> tab = X.compute(clear, freqs, comm);
        std::string tag = "chi" + std::to_string(k);
        if (comm.rank() == 0) for (auto& v : tab) put(out, tag + ".table(root)", v);          // the reduction root holds the table
        put(out, tag + ".tablesize", double(tab.size()));
        if (!clear) for (auto& t : tri) put(out, tag + ".terms", X(t[0], t[1], t[2]));          // evaluation from terms is offered on every rank
        dg = dig_terms(X, dg); if (comm.rank() == 0) dg = digest_doubles((const double*)tab.data(), tab.size() * 2, dg);
        if (checkpoints) vmpi::checkpoint(dg);
    }
    if (phase >= 3) {
        TwoParticleGFContainer C(*P.IC, *P.S, *P.H, *P.rho, *P.Ops); std::set<IndexCombination4> want;
        for (int k = 0; k < ncomp; ++k) { const int* q = COMPS[k]; if (q[0] < M && q[1] < M && q[2] < M && q[3] < M) want.insert(IndexCombination4(q[0], q[1], q[2], q[3])); }
        C.prepareAll(want);
        std::map<IndexCombination4, std::vector<ComplexType> > tabs = C.computeAll(clear, freqs, comm, split);
        for (auto it = C.NonTrivialElements.begin(); it != C.NonTrivialElements.end(); ++it) {
            std::string tag = "cont" + std::to_string(it->first.Index1) + std::to_string(it->first.Index2) + std::to_string(it->first.Index3) + std::to_string(it->first.Index4);
            auto tb = tabs.find(it->first); put(out, tag + ".has_table", tb != tabs.end() ? 1.0 : 0.0);
            // split path broadcasts the tables to every rank; the unsplit path leaves them on the reduction root
            if (tb != tabs.end() && (split || comm.rank() == 0)) for (auto& v : tb->second) put(out, tag + (split ? ".table(all)" : ".table(root)"), v);
            if (tb != tabs.end()) put(out, tag + ".tablesize", double(tb->second.size()));
            if (!clear) for (auto& t : tri) put(out, tag + ".terms", C(it->first)(t[0], t[1], t[2]));   // every listed component must be evaluable on every rank
            dg = dig_terms(*it->second, dg);
        }
        if (checkpoints) vmpi::checkpoint(dg);
    }
}

std::string ref_key(const VxConfig& c) { std::string s; for (auto& kv : c.p) if (kv.first != "P" && kv.first != "rdv" && kv.first != "omp" && kv.first != "ompord") s += kv.first + "=" + std::to_string(kv.second) + " "; return s; }

VxHarness make_c06(const VxConfig& c) {
    int P = c.p.at("P"); VxHarness h; h.mpi.P = P; h.mpi.rendezvous = c.p.at("rdv"); h.mpi.omp_threads = c.p.count("omp") ? c.p.at("omp") : 1; h.mpi.omp_order = c.p.count("ompord") ? c.p.at("ompord") : 0; h.mpi.horizon = 400000;
    // reference: the same program on one rank, one thread (computed once, in the parent, before any exploration)
    std::string rk = ref_key(c);
    if (!g_reference.count(rk)) { VxConfig c1 = c; c1.p["P"] = 1; vmpi::Config m1; m1.P = 1; Dump d; Quiet q;
        vmpi::Outcome o = vmpi::run(m1, [&](int r) { workflow(r, c1, d, false); }, [](size_t, const std::vector<int>& en, const std::vector<char>&, uint64_t, uint64_t) { return en[0]; });
        if (o.kind != vmpi::Outcome::OK) throw std::runtime_error("C06: the single-rank reference run failed: " + o.detail);
        g_reference[rk] = d; }
    const Dump* ref = &g_reference[rk]; VxConfig cc = c;
    h.reset = []() { static Shared s; s = Shared(); SH = &s; };
    h.body = [cc](int rank) { Quiet q; Dump d; workflow(rank, cc, d, true); SH->dump[rank] = d; SH->done[rank] = 1; };
    h.oracle = [P, ref](const vmpi::Outcome& o, std::string& sig) -> std::string {
        for (int p = 0; p < P; ++p) if (!SH->done[p]) return "rank " + std::to_string(p) + " did not complete the workflow";
        if (o.leftover_messages) return std::to_string(o.leftover_messages) + " message(s) were never received";
        for (int p = 0; p < P; ++p) { const Dump& d = SH->dump[p];
            for (auto& kv : d) { auto it = ref->find(kv.first); if (it == ref->end()) return "rank " + std::to_string(p) + " reports '" + kv.first + "' which the single-rank run does not have";
                if (it->second.size() != kv.second.size()) return "rank " + std::to_string(p) + ": '" + kv.first + "' has " + std::to_string(kv.second.size() / 2) + " values, the single-rank run has " + std::to_string(it->second.size() / 2);
                for (size_t i = 0; i < kv.second.size(); ++i) if (std::abs(kv.second[i] - it->second[i]) > 1e-9 * (1 + std::abs(it->second[i]))) return "rank " + std::to_string(p) + ": '" + kv.first + "'[" + std::to_string(i / 2) + "] = " + std::to_string(kv.second[i]) + " differs from the single-rank single-thread value " + std::to_string(it->second[i]); }
            for (auto& kv : *ref) { bool rootonly = kv.first.find("(root)") != std::string::npos; if (rootonly && p != 0) continue; if (!d.count(kv.first)) return "rank " + std::to_string(p) + " lacks '" + kv.first + "' which the single-rank run reports"; } }
        sig = "ok"; return "";
    };
    return h;
}
static VxFacReg f1("c06", make_c06);

int run_c06(const Args& a, Recorder& rec) {
    Clock clk; bool T = a.thorough(); long idx = 0; std::vector<std::pair<VxConfig,int> > cfgs;   // config, deviation bound (-1 = all interleavings)
    auto add = [&](int model, int P, int phase, int comps, int clear, int split, int rdv, int bound, int omp = 1, int ompord = 0) { VxConfig c; c.harness = "c06"; c.p["model"] = model; c.p["P"] = P; c.p["phase"] = phase; c.p["comps"] = comps; c.p["clear"] = clear; c.p["split"] = split; c.p["rdv"] = rdv; c.p["omp"] = omp; c.p["ompord"] = ompord; cfgs.push_back(std::make_pair(c, bound)); };
    // distributed diagonalisation: all interleavings
    for (int model : { 2, 1 }) for (int P = 1; P <= (T ? 4 : 3); ++P) for (int rdv = 0; rdv < 2; ++rdv) add(model, P, 1, 0, 0, 0, rdv, (P <= 3 || model == 2) ? -1 : 2);
    add(3, 2, 1, 0, 0, 0, 0, T ? -1 : 1); if (T) add(3, 3, 1, 0, 0, 0, 0, 2);
    // TwoParticleGF::compute with the communicator: clear on/off
    for (int model : { 2, 1 }) for (int P = 2; P <= 3; ++P) for (int clear = 0; clear < 2; ++clear) add(model, P, 2, model == 2 ? 1 : 2, clear, 0, 0, T ? 2 : 1);
    if (T) for (int rdv = 1; rdv < 2; ++rdv) add(2, 2, 2, 1, 0, 0, rdv, 2);
    // container, split and unsplit; component counts that P divides / does not divide
    for (int model : { 2, 1 }) for (int P : { 2, 3, 4 }) for (int comps : { 1, 2, 3, 5 }) for (int split = 0; split < 2; ++split) { if (!T && (P == 4 && comps != 3)) continue; if (!T && comps == 5 && P == 3) continue; add(model, P, 3, comps, 0, split, 0, (P == 2 && comps <= 2) ? 1 : 0); }
    for (int P : { 2, 3 }) add(2, P, 3, 2, 1, 1, 0, 0);
    if (T) for (int P : { 5, 8, 16 }) add(1, P, 3, 3, 0, 1, 0, 0);
    // OpenMP team sizes / chunk orders (single rank and two ranks)
    for (int omp : { 2, 3, 4, 16 }) for (int ord : { 0, 1, 2 }) { if (!T && omp == 16 && ord == 2) continue; add(1, 1, 2, 2, 0, 0, 0, 0, omp, ord); } add(1, 2, 3, 2, 0, 1, 0, 0, 3, 1);
    for (auto& cb : cfgs) {
        if ((idx++ % a.nshards) != a.shard) continue; const VxConfig& c = cb.first; std::string name = c.str() + " bound=" + (cb.second < 0 ? std::string("none") : std::to_string(cb.second)); if (!a.want(c.str())) continue;
        if (clk.s() > a.deadline) { rec.exhaustive = false; rec.note("deadline before " + name); continue; }
        vmpi::ExploreResult R = vx_explore(a, rec, c, cb.second, std::max(20.0, a.deadline - clk.s()), T ? 400000 : 60000, "C06");
        rec.counters["configurations"]++; if (c.p.at("P") > 1 || c.p.at("omp") > 1) rec.nontrivial++;
        std::ostringstream s; s << name << " : executions=" << R.executions << " states=" << R.states << " transitions=" << R.transitions << " longest=" << R.max_points << (R.exhaustive ? "" : " (NOT exhausted)"); rec.sample(s.str(), 14);
    }
    rec.bound = "models S2(3 blocks), S1(4 blocks), S6(9 blocks); P<=4 (thorough: up to 16 at bound 0); all interleavings for the distributed diagonalisation with P<=3, deviation bounds 0..2 elsewhere (per sample); eager and rendezvous sends; OpenMP team sizes 2,3,4,16 x 3 chunk orders";
    return 0;
}
} // namespace
REGISTER_VX("C06", run_c06);
