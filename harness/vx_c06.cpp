// C06 -- results independent of MPI ranks / OpenMP threads; runs always terminate.  P rank-threads run the documented
// workflow with the communicator passed everywhere it is accepted, over the virtual MPI, all interleavings state-hashed
// (checkpoint digests merge schedules that left identical data), against the single-rank single-thread run.
#include "vx_checks.hpp"
#include "c06_workflow.hpp"
#include <array>
using namespace mx;

namespace {
typedef c06::Dump Dump;
struct Shared { std::map<int, Dump> dump; std::map<int,int> done; } *SH = 0;
static std::map<std::string, Dump> g_reference;     // per configuration-without-P: the P=1, T=1 run
std::string ref_key(const VxConfig& c) { std::string s; for (auto& kv : c.p) if (kv.first != "P" && kv.first != "rdv" && kv.first != "omp" && kv.first != "ompord") s += kv.first + "=" + std::to_string(kv.second) + " "; return s; }

VxHarness make_c06(const VxConfig& c) {
    int P = c.p.at("P"); VxHarness h; h.mpi.P = P; h.mpi.rendezvous = c.p.at("rdv"); h.mpi.omp_threads = c.p.count("omp") ? c.p.at("omp") : 1; h.mpi.omp_order = c.p.count("ompord") ? c.p.at("ompord") : 0; h.mpi.horizon = 400000;
    // reference: the same program on one rank, one thread (computed once, in the parent, before any exploration)
    std::string rk = ref_key(c);
    if (!g_reference.count(rk)) { VxConfig c1 = c; c1.p["P"] = 1; vmpi::Config m1; m1.P = 1; Dump d; Quiet q;
        vmpi::Outcome o = vmpi::run(m1, [&](int r) { c06::workflow(r, c1.p, d, false); }, [](size_t, const std::vector<int>& en, const std::vector<char>&, uint64_t, uint64_t) { return en[0]; });
        if (o.kind != vmpi::Outcome::OK) throw std::runtime_error("C06: the single-rank reference run failed: " + o.detail);
        g_reference[rk] = d; }
    const Dump* ref = &g_reference[rk]; VxConfig cc = c;
    h.reset = []() { static Shared s; s = Shared(); SH = &s; };
    h.body = [cc](int rank) { Quiet q; Dump d; c06::workflow(rank, cc.p, d, true); SH->dump[rank] = d; SH->done[rank] = 1; };
    h.oracle = [P, ref](const vmpi::Outcome& o, std::string& sig) -> std::string {
        for (int p = 0; p < P; ++p) if (!SH->done[p]) return "rank " + std::to_string(p) + " did not complete the workflow";
        if (o.leftover_messages) return std::to_string(o.leftover_messages) + " message(s) were never received";
        for (int p = 0; p < P; ++p) { const Dump& d = SH->dump[p];
            for (auto& kv : d) { auto it = ref->find(kv.first); if (it == ref->end()) return "rank " + std::to_string(p) + " reports '" + kv.first + "' which the single-rank run does not have";
                if (it->second.size() != kv.second.size()) return "rank " + std::to_string(p) + ": '" + kv.first + "' has " + std::to_string(kv.second.size() / 2) + " values, the single-rank run has " + std::to_string(it->second.size() / 2);
                for (size_t i = 0; i < kv.second.size(); ++i) if (std::abs(kv.second[i] - it->second[i]) > 1e-9 * (1 + std::abs(it->second[i]))) return "rank " + std::to_string(p) + ": '" + kv.first + "'[" + std::to_string(i / 2) + "] = " + std::to_string(kv.second[i]) + " differs from the single-rank single-thread value " + std::to_string(it->second[i]); }
            for (auto& kv : *ref) { bool rootonly = kv.first.find("(root)") != std::string::npos; if (rootonly && p != 0) continue; if (!d.count(kv.first)) return "rank " + std::to_string(p) + " lacks '" + kv.first + "' which the single-rank run reports"; } }
        sig = "ok"; return "";
    };
    return h;
}
static VxFacReg f1("c06", make_c06);

int run_c06(const Args& a, Recorder& rec) {
    Clock clk; bool T = a.thorough(); long idx = 0; std::vector<std::pair<VxConfig,int> > cfgs;   // config, deviation bound (-1 = all interleavings)
    auto add = [&](int model, int P, int phase, int comps, int clear, int split, int rdv, int bound, int omp = 1, int ompord = 0) { VxConfig c; c.harness = "c06"; c.p["model"] = model; c.p["P"] = P; c.p["phase"] = phase; c.p["comps"] = comps; c.p["clear"] = clear; c.p["split"] = split; c.p["rdv"] = rdv; c.p["omp"] = omp; c.p["ompord"] = ompord; cfgs.push_back(std::make_pair(c, bound)); };
    // distributed diagonalisation: all interleavings
    for (int model : { 2, 1 }) for (int P = 1; P <= (T ? 4 : 3); ++P) for (int rdv = 0; rdv < 2; ++rdv) add(model, P, 1, 0, 0, 0, rdv, (P <= 3 || model == 2) ? -1 : 3);
    add(3, 2, 1, 0, 0, 0, 0, T ? -1 : 1); if (T) { add(3, 3, 1, 0, 0, 0, 0, 2); add(3, 4, 1, 0, 0, 0, 0, 1); add(3, 2, 1, 0, 0, 0, 1, 2); }
    // TwoParticleGF::compute with the communicator: clear on/off
    for (int model : { 2, 1 }) for (int P = 2; P <= (T ? 4 : 3); ++P) for (int clear = 0; clear < 2; ++clear) add(model, P, 2, model == 2 ? 1 : 2, clear, 0, 0, T ? (P <= 3 ? 3 : 2) : 1);
    if (T) { for (int rdv = 1; rdv < 2; ++rdv) add(2, 2, 2, 1, 0, 0, rdv, 3); add(3, 2, 2, 2, 0, 0, 0, 1); add(3, 3, 2, 1, 1, 0, 0, 1); }
    // container, split and unsplit; component counts that P divides / does not divide
    for (int model : { 2, 1 }) for (int P : { 2, 3, 4 }) for (int comps : { 1, 2, 3, 5 }) for (int split = 0; split < 2; ++split) { if (!T && (P == 4 && comps != 3)) continue; if (!T && comps == 5 && P == 3) continue; add(model, P, 3, comps, 0, split, 0, T ? ((P == 2 && comps <= 3) ? 2 : 1) : ((P == 2 && comps <= 2) ? 1 : 0)); }
    for (int P : { 2, 3 }) add(2, P, 3, 2, 1, 1, 0, T ? 1 : 0);
    if (T) { for (int P : { 5, 8, 16 }) add(1, P, 3, 3, 0, 1, 0, 0); for (int P : { 2, 3 }) for (int split = 0; split < 2; ++split) add(3, P, 3, 3, 0, split, 0, 0); }
    // the rank -> colour -> component arithmetic of the split path over the whole (P, components) grid, default schedule (bound 0):
    // every rank count up to 8 (thorough: 16), fewer / as many / more components than ranks
    for (int P = 4; P <= (T ? 16 : 8); ++P) for (int comps : { 1, 2, 3, 5 }) { if (P == 4 && comps == 3) continue; if (T && comps == 3 && (P == 5 || P == 8 || P == 16)) continue; add(2, P, 3, comps, 0, 1, 0, 0); if (T && P <= 8) add(2, P, 3, comps, 0, 0, 0, 0); }
    // OpenMP team sizes / chunk orders (single rank and two ranks)
    for (int omp : { 2, 3, 4, 16 }) for (int ord : { 0, 1, 2 }) { if (!T && omp == 16 && ord == 2) continue; add(1, 1, 2, 2, 0, 0, 0, 0, omp, ord); } add(1, 2, 3, 2, 0, 1, 0, 0, 3, 1);
    for (auto& cb : cfgs) {
        if ((idx++ % a.nshards) != a.shard) continue; const VxConfig& c = cb.first; std::string name = c.str() + " bound=" + (cb.second < 0 ? std::string("none") : std::to_string(cb.second)); if (!a.want(c.str())) continue;
        if (clk.s() > a.deadline) { rec.exhaustive = false; rec.note("deadline before " + name); continue; }
        vmpi::ExploreResult R = vx_explore(a, rec, c, cb.second, std::max(20.0, a.deadline - clk.s()), T ? 400000 : 60000, "C06");
        rec.counters["configurations"]++; if (c.p.at("P") > 1 || c.p.at("omp") > 1) rec.nontrivial++;
        std::ostringstream s; s << name << " : executions=" << R.executions << " states=" << R.states << " transitions=" << R.transitions << " longest=" << R.max_points << (R.exhaustive ? "" : " (NOT exhausted)"); rec.sample(s.str(), 14);
    }
    rec.bound = "models S2(3 blocks), S1(4 blocks), S6(9 blocks); P<=4 (thorough: up to 16 at bound 0); all interleavings for the distributed diagonalisation with P<=3, deviation bounds 0..2 elsewhere (per sample); eager and rendezvous sends; OpenMP team sizes 2,3,4,16 x 3 chunk orders";
    return 0;
}
} // namespace
REGISTER_VX("C06", run_c06);
