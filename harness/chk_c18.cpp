// C18 -- index bookkeeping is a bijection; physics invariant under relabelling / ordering mode
#include "checks.hpp"
using namespace mx;

namespace {

void bookkeeping(const Args& a, Recorder& rec, long& idx) {
    std::vector<std::string> labels = { "A", "B", "a", "", "10", "2", "site 1" };
    std::vector<std::string> labels3 = { "A", "a", "10", "2" };
    for (int ns = 1; ns <= 3; ++ns) {
        const std::vector<std::string>& LB = (ns == 3) ? labels3 : labels; int nl = LB.size();
        long nshape = 1; for (int k = 0; k < ns; ++k) nshape *= 9;
        long nlab = 1; for (int k = 0; k < ns; ++k) nlab *= nl;
        for (long sc = 0; sc < nshape; ++sc) for (long lc = 0; lc < nlab; ++lc) {
            std::vector<int> li(ns); long t = lc; bool distinct = true; for (int k = 0; k < ns; ++k) { li[k] = t % nl; t /= nl; for (int q = 0; q < k; ++q) if (li[q] == li[k]) distinct = false; }
            if (!distinct) continue;
            if ((idx++ % a.nshards) != a.shard) continue;
            Shape sh; long s2 = sc; int total = 0; std::string repr = "sites:";
            for (int k = 0; k < ns; ++k) { SiteSpec s; s.label = LB[li[k]]; s.orb = 1 + (s2 % 3); s.spin = 1 + ((s2 / 3) % 3); s2 /= 9; sh.sites.push_back(s); total += s.orb * s.spin; repr += "'" + s.label + "'(" + std::to_string(s.orb) + "," + std::to_string(s.spin) + ")"; }
            // call histories of prepare(): once; after a prepare() in the OTHER ordering mode (switching the mode on the same object); twice in the same mode
            for (int mh = 0; mh < 6; ++mh) { int mode = mh % 2, hist = mh / 2;
                std::string kase = repr + " order_spins=" + std::to_string(mode) + (hist == 1 ? " after prepare(other mode)" : hist == 2 ? " prepared twice" : "");
                if (!a.want(kase)) continue;
                marker("C18 " + kase); rec.states++; rec.evaluations++; rec.transitions++; if (idx % 1013 == 0) rec.sample(kase);
                bool hetero = false; for (auto& s : sh.sites) if (s.spin != sh.sites[0].spin || s.orb != sh.sites[0].orb) hetero = true; if (hetero) rec.nontrivial++;
                std::string fam = std::string(mode ? "order_spins" : "default") + (hetero ? ":heterogeneous" : ":homogeneous");
                Lattice L; build_sites(L, sh); IndexClassification IC(L.getSiteMap());
                try { if (hist == 1) IC.prepare(!mode); if (hist == 2) IC.prepare(mode); IC.prepare(mode); } catch (std::exception& e) { rec.violation("C18:prepare-throws:" + fam, "IndexClassification::prepare throws", kase); continue; }
                int N = IC.getIndexSize();
                if (N != total) { rec.violation("C18:index-size:" + fam, "getIndexSize != sum of orbitals*spins", kase); continue; }
                std::set<std::tuple<std::string,int,int> > seen; bool ok = true; int lastspin = -1; std::set<int> closed;
                for (int i = 0; i < N && ok; ++i) {
                    try {
                        IndexClassification::IndexInfo info = IC.getInfo(i);
                        const SiteSpec* st = sh.find(info.SiteLabel);
                        if (!st || info.Orbital >= st->orb || info.Spin >= st->spin) { rec.violation("C18:info-invalid:" + fam, "getInfo(i) names a (site,orbital,spin) that does not exist", kase); ok = false; break; }
                        if (!seen.insert(std::make_tuple(info.SiteLabel, (int)info.Orbital, (int)info.Spin)).second) { rec.violation("C18:not-injective:" + fam, "two indices carry the same (site,orbital,spin)", kase); ok = false; break; }
                        if ((int)IC.getIndex(info) != i || (int)IC.getIndex(info.SiteLabel, info.Orbital, info.Spin) != i) { rec.violation("C18:inverse:" + fam, "getIndex(getInfo(i)) != i", kase); ok = false; break; }
                        if (!IC.checkIndex(i)) { rec.violation("C18:checkIndex:" + fam, "checkIndex(i) false for a valid index", kase); ok = false; break; }
                        if (mode) { if ((int)info.Spin != lastspin) { if (closed.count(info.Spin)) { rec.violation("C18:spin-grouping", "order_spins=true does not group indices by spin", kase); ok = false; break; } if (lastspin >= 0) closed.insert(lastspin); lastspin = info.Spin; } }
                    } catch (std::exception& e) { rec.violation("C18:getInfo-throws:" + fam, "getInfo(i) throws for i < getIndexSize()", kase); ok = false; }
                }
                if (!ok) continue;
                for (auto& s : sh.sites) for (int o = 0; o <= s.orb; ++o) for (int z = 0; z <= s.spin; ++z) {
                    int i = IC.getIndex(s.label, o, z); bool valid = (o < s.orb && z < s.spin);
                    if (valid) { if (i >= N) { rec.violation("C18:forward-missing:" + fam, "a valid (site,orbital,spin) has no index", kase); continue; }
                        IndexClassification::IndexInfo info = IC.getInfo(i); if (info.SiteLabel != s.label || info.Orbital != o || info.Spin != z) rec.violation("C18:forward-inverse:" + fam, "getInfo(getIndex(x)) != x", kase); }
                    else if (i < N) rec.violation("C18:invalid-mapped:" + fam, "an out-of-range (site,orbital,spin) is mapped to a valid index", kase);
                }
                if ((int)IC.getIndex("no such site", 0, 0) < N) rec.violation("C18:invalid-mapped:" + fam, "an unknown site label is mapped to a valid index", kase);
                bool threw = false; try { IC.getInfo(N); } catch (IndexClassification::exWrongIndex&) { threw = true; } if (!threw) rec.violation("C18:getInfo-range", "getInfo(getIndexSize()) does not fail", kase);
                if (IC.checkIndex(N)) rec.violation("C18:checkIndex", "checkIndex(N) true", kase);
            }
        }
    }
}

struct Obs { std::vector<double> spec; double avgE; std::vector<double> occ; std::vector<std::vector<std::vector<cd> > > G; };

bool observe(const Shape& sh, const std::vector<Gen>& hist, bool order_spins, double beta, const std::vector<long>& ns, Pipe& P, Obs& o) {
    P.make_lattice(sh, hist, order_spins); P.make_states(SYM_DEFAULT); P.make_hamiltonian(); P.make_rho(beta); P.make_ops(); P.make_gf();
    int M = P.M; RealVectorType ev = P.H->getEigenValues(); o.spec.assign(ev.data(), ev.data() + ev.size()); std::sort(o.spec.begin(), o.spec.end());
    o.avgE = P.rho->getAverageEnergy(); o.occ.resize(M); for (int i = 0; i < M; ++i) o.occ[i] = P.rho->getAverageOccupancy(i);
    o.G.assign(M, std::vector<std::vector<cd> >(M, std::vector<cd>(ns.size())));
    for (int i = 0; i < M; ++i) for (int j = 0; j < M; ++j) for (size_t k = 0; k < ns.size(); ++k) o.G[i][j][k] = (*P.G)(i, j)(ns[k]);
    return true;
}

void relabelling(const Args& a, Recorder& rec, Clock& clk) {
    std::vector<PlanItem> plan; bool T = a.thorough();
    auto add = [&](const char* s, int d) { PlanItem it; it.shape = s; it.depth = d; it.opts.rich = false; plan.push_back(it); };
    add("S1", T ? 2 : 1); add("S2", 2); add("S4", T ? 2 : 1); add("S4r", T ? 2 : 1); add("S6", T ? 2 : 1); add("S11", T ? 2 : 1); if (T) { add("S3", 2); add("S7", 1); }
    std::vector<long> ns = { -2, -1, 0, 1 }; double beta = 5.0;
    for_each_state(a, rec, plan, [&](Ctx& c) {
        std::vector<Gen> hist = hist_gens(c.A, c.st.hist);
        // skip lattices the default analysis cannot handle (C07) -- detect by trying
        Pipe P1; Obs o1;
        try { observe(c.sh, hist, false, beta, ns, P1, o1); } catch (std::exception& e) { rec.skipped++; rec.counters["skipped_pipeline_threw(C07)"]++; return; }
        { refed::Mat Href = lattice_H(*P1.L, *P1.IC); bool raw = false; for (auto& g : hist) if (g.kind == RAW) raw = true;
          // a non-Hermitian stored operator is outside the property's domain when the caller supplied it (raw terms); when it came out of
          // the documented presets alone (C04's subject) the relabelling comparison below is still made on whatever the library computes
          bool herm = maxabs(Href - Href.adjoint()) <= 1e-12; if (!herm && raw) { rec.skipped++; return; } if (!herm) rec.counters["nonhermitian_from_presets(C04)"]++;
          Soundness s; s.address_ok = s.h_block_diag = s.ops_single_target = true; if (herm) s = soundness(P1, Href, false); if (!s.ok()) { rec.skipped++; rec.counters["skipped_unsound_partition(C07)"]++; return; } }
        if (nontrivial_H(lattice_H(*P1.L, *P1.IC))) rec.nontrivial++;
        // label maps: every permutation of the label set, and a rename whose sort order differs
        std::vector<std::string> labs; for (auto& s : c.sh.sites) labs.push_back(s.label);
        std::vector<std::vector<std::string> > targets; std::vector<std::string> perm = labs; std::sort(perm.begin(), perm.end());
        do { targets.push_back(perm); } while (std::next_permutation(perm.begin(), perm.end()));
        { std::vector<std::string> rn = { "x2", "x10", "x1" }; rn.resize(labs.size()); targets.push_back(rn); std::vector<std::string> rn2 = { "zz", " y", "m" }; rn2.resize(labs.size()); targets.push_back(rn2); }
        for (auto& tg : targets) for (int mode = 0; mode < 2; ++mode) {
            std::map<std::string,std::string> rho; for (size_t k = 0; k < labs.size(); ++k) rho[labs[k]] = tg[k];
            bool identity = true; for (auto& kv : rho) if (kv.first != kv.second) identity = false; if (identity && mode == 0) continue;
            std::string kase = c.repr + " | relabel"; for (auto& kv : rho) kase += " " + kv.first + "->'" + kv.second + "'"; kase += " order_spins=" + std::to_string(mode);
            Shape sh2 = c.sh; for (auto& s : sh2.sites) s.label = rho[s.label];
            std::vector<Gen> h2 = hist; for (auto& g : h2) { if (!g.l1.empty() || g.kind != RAW) g.l1 = rho.count(g.l1) ? rho[g.l1] : g.l1; if (rho.count(g.l2)) g.l2 = rho[g.l2]; for (auto& r : g.raw) r.label = rho[r.label]; }
            rec.evaluations++;
            Pipe P2; Obs o2;
            try { observe(sh2, h2, mode, beta, ns, P2, o2); } catch (std::exception& e) { rec.violation(std::string("C18:relabel:throws:order_spins=") + std::to_string(mode), std::string("the relabelled / re-ordered model cannot be computed: ") + e.what(), kase); continue; }
            int M = P1.M; if (P2.M != M) { rec.violation("C18:relabel:size", "index space size changes under relabelling", kase); continue; }
            std::vector<int> pi(M); bool okpi = true;
            for (int i = 0; i < M; ++i) { IndexClassification::IndexInfo info = P1.IC->getInfo(i); int j = P2.IC->getIndex(rho[info.SiteLabel], info.Orbital, info.Spin); if (j >= M) okpi = false; pi[i] = j; }
            if (!okpi) { rec.violation("C18:relabel:permutation", "induced index permutation is not defined", kase); continue; }
            std::string fam = std::string("order_spins=") + std::to_string(mode);
            double scale = 1 + std::abs(o1.spec.front()) + std::abs(o1.spec.back());
            for (size_t k = 0; k < o1.spec.size(); ++k) if (std::abs(o1.spec[k] - o2.spec[k]) > 1e-9 * scale) { rec.violation("C18:relabel:spectrum:" + fam, "spectrum changes under relabelling", kase); break; }
            if (std::abs(o1.avgE - o2.avgE) > 1e-8 * scale) rec.violation("C18:relabel:energy:" + fam, "average energy changes under relabelling", kase);
            for (int i = 0; i < M; ++i) if (std::abs(o1.occ[i] - o2.occ[pi[i]]) > 1e-8) { rec.violation("C18:relabel:occupancy:" + fam, "occupancies are not related by the induced permutation", kase); break; }
            bool gbad = false; double allow = P1.D * P1.D * 2e-8 / (M_PI / beta);
            for (int i = 0; i < M && !gbad; ++i) for (int j = 0; j < M && !gbad; ++j) for (size_t k = 0; k < ns.size(); ++k)
                if (std::abs(o1.G[i][j][k] - o2.G[pi[i]][pi[j]][k]) > 1e-9 * (1 + std::abs(o1.G[i][j][k])) + allow) { rec.violation("C18:relabel:G:" + fam, "G_ij is not related to the relabelled G by the induced permutation", kase + " G(" + std::to_string(i) + "," + std::to_string(j) + ")"); gbad = true; break; }
        }
    }, clk);
}

int run(const Args& a, Recorder& rec) {
    Clock clk; long idx = 0;
    bookkeeping(a, rec, idx);
    relabelling(a, rec, clk);
    rec.bound = "bookkeeping: all lattices of 1..3 sites x (orb,spin) in {1,2,3}^2 x distinct labels x 2 ordering modes; relabelling: " + rec.bound;
    return 0;
}
} // namespace
REGISTER_CHECK("C18", run);
