#include <unistd.h>
#include <sys/wait.h>
#include <cstdlib>
#include "harness.hpp"
namespace mx {

refed::Mat lattice_H(const Lattice& L, const IndexClassification& IC) {
    int M = IC.getIndexSize(); refed::Mat H = refed::Mat::Zero(1 << M, 1 << M);
    unsigned maxo = L.getTermStorage().getMaxTermOrder();
    for (unsigned N = 1; N <= maxo; ++N) {
        const Lattice::TermList& tl = L.getTermStorage().getTerms(N);
        for (Lattice::TermList::const_iterator it = tl.begin(); it != tl.end(); ++it) {
            const Lattice::Term& T = **it; std::vector<std::pair<bool,int> > seq;
            for (unsigned k = 0; k < N; ++k) {
                int idx = IC.getIndex(T.SiteLabels[k], T.Orbitals[k], T.Spins[k]);
                if (idx >= M) throw std::runtime_error("lattice_H: term refers to unknown index");
                seq.push_back(std::make_pair((bool)T.OperatorSequence[k], idx));
            }
            H += cd(T.Value) * refed::monomial(M, seq);
        }
    }
    return H;
}

std::string mat_key_full(const refed::Mat& H) {
    std::string k; k.reserve(H.size() * 4);
    for (int j = 0; j < H.cols(); ++j) for (int i = 0; i < H.rows(); ++i) {
        cd v = H(i, j); long long re = llround(v.real() * 1e9), im = llround(v.imag() * 1e9);
        if (re == 0 && im == 0) { k += '.'; continue; }
        k += std::to_string(re); if (im) { k += 'i'; k += std::to_string(im); } k += ',';
    }
    return k;
}
std::string mat_key(const refed::Mat& H) {
    std::string k; k.reserve(H.size() * 4);
    for (int j = 0; j < H.cols(); ++j) for (int i = 0; i <= j; ++i) {
        cd v = H(i, j); long long re = llround(v.real() * 1e9), im = llround(v.imag() * 1e9);
        if (re == 0 && im == 0) { k += '.'; continue; }
        k += std::to_string(re); if (im) { k += 'i'; k += std::to_string(im); } k += ',';
    }
    return k;
}

static BFSResult bfs_models_inproc(const Shape& sh, const std::vector<Gen>& A, int maxdepth, size_t cap ) {
    BFSResult R; R.transitions = R.duplicates = R.rejected = 0;
    std::unordered_set<std::string> seen; std::vector<MState> frontier;
    auto key_of = [&](const std::vector<int>& h, std::string& key) -> bool {
        try {
            Lattice L; build_sites(L, sh); for (int g : h) apply_lib(L, A[g]);
            IndexClassification IC(L.getSiteMap()); IC.prepare();
            key = mat_key(lattice_H(L, IC)); return true;
        } catch (std::exception&) { return false; }
    };
    { MState s; s.depth = 0; std::string k; key_of(s.hist, k); seen.insert(k); R.states.push_back(s); frontier.push_back(s); R.per_level.push_back(1); }
    for (int d = 1; d <= maxdepth; ++d) {
        std::vector<MState> next;
        for (auto& st : frontier) for (size_t g = 0; g < A.size(); ++g) {
            std::vector<int> h = st.hist; h.push_back((int)g); std::string k; R.transitions++;
            if (!key_of(h, k)) { R.rejected++; continue; }
            if (!seen.insert(k).second) { R.duplicates++; continue; }
            MState n; n.hist = h; n.depth = d; next.push_back(n); R.states.push_back(n);
            if (cap && R.states.size() >= cap) { R.per_level.push_back(next.size()); return R; }
        }
        R.per_level.push_back(next.size()); frontier.swap(next);
    }
    return R;
}

// The enumeration builds one real Lattice per transition, and the library never frees a lattice's terms (LatticePresets passes a
// heap-allocated temporary to addTerm, which copies it) -- half a million transitions under ASan cost gigabytes.  So the enumeration
// runs in a forked child that streams the resulting histories back through a pipe and exits; the parent keeps only the state list.
// If the child does not finish cleanly the enumeration is repeated in-process, so that a crash inside the library is observed as before.
BFSResult bfs_models(const Shape& sh, const std::vector<Gen>& A, int maxdepth, size_t cap ) {
    if (maxdepth <= 1 || getenv("VERIF_NO_FORK_BFS")) return bfs_models_inproc(sh, A, maxdepth, cap);
    int fd[2]; if (pipe(fd) != 0) return bfs_models_inproc(sh, A, maxdepth, cap);
    fflush(stdout); fflush(stderr);
    pid_t pid = fork();
    if (pid < 0) { close(fd[0]); close(fd[1]); return bfs_models_inproc(sh, A, maxdepth, cap); }
    if (pid == 0) {
        close(fd[0]); BFSResult R = bfs_models_inproc(sh, A, maxdepth, cap);
        std::vector<long> buf; buf.push_back(R.transitions); buf.push_back(R.duplicates); buf.push_back(R.rejected); buf.push_back((long)R.per_level.size()); for (long v : R.per_level) buf.push_back(v);
        buf.push_back((long)R.states.size()); for (auto& st : R.states) { buf.push_back(st.depth); buf.push_back((long)st.hist.size()); for (int g : st.hist) buf.push_back(g); }
        buf.push_back(0x600DC0DEL);
        const char* p = (const char*)buf.data(); size_t n = buf.size() * sizeof(long); while (n) { ssize_t w = write(fd[1], p, n); if (w <= 0) _exit(3); p += w; n -= w; }
        close(fd[1]); _exit(0);
    }
    close(fd[1]); std::vector<char> raw; char tmp[65536]; ssize_t r; while ((r = read(fd[0], tmp, sizeof tmp)) > 0) raw.insert(raw.end(), tmp, tmp + r); close(fd[0]);
    int status = 0; waitpid(pid, &status, 0);
    size_t nl = raw.size() / sizeof(long); const long* q = (const long*)raw.data(); bool ok = WIFEXITED(status) && WEXITSTATUS(status) == 0 && nl >= 6 && q[nl - 1] == 0x600DC0DEL;
    if (!ok) return bfs_models_inproc(sh, A, maxdepth, cap);
    BFSResult R; size_t i = 0; R.transitions = q[i++]; R.duplicates = q[i++]; R.rejected = q[i++]; long npl = q[i++]; for (long k = 0; k < npl; ++k) R.per_level.push_back(q[i++]);
    long ns = q[i++]; R.states.reserve(ns); for (long k = 0; k < ns; ++k) { MState st; st.depth = (int)q[i++]; long hl = q[i++]; for (long j = 0; j < hl; ++j) st.hist.push_back((int)q[i++]); R.states.push_back(st); }
    return R;
}

std::string hist_repr(const Shape& sh, const std::vector<Gen>& A, const std::vector<int>& h) {
    std::string s = sh.id + ":";
    for (size_t i = 0; i < h.size(); ++i) { s += (i ? ";" : ""); s += A[h[i]].repr(); }
    if (h.empty()) s += "<empty>";
    return s;
}

std::vector<Gen> hist_gens(const std::vector<Gen>& A, const std::vector<int>& h) { std::vector<Gen> g; for (int i : h) g.push_back(A[i]); return g; }

bool nontrivial_H(const refed::Mat& H) {
    refed::Mat off = H; off.diagonal().setZero(); if (maxabs(off) > 1e-12) return true;
    std::vector<double> d; for (int i = 0; i < H.rows(); ++i) d.push_back(H(i, i).real()); std::sort(d.begin(), d.end());
    for (size_t i = 1; i < d.size(); ++i) if (std::abs(d[i] - d[i - 1]) < 1e-9) return true;
    return false;
}

} // namespace
