#include "harness.hpp"
namespace mx {

refed::Mat lattice_H(const Lattice& L, const IndexClassification& IC) {
    int M = IC.getIndexSize(); refed::Mat H = refed::Mat::Zero(1 << M, 1 << M);
    unsigned maxo = L.getTermStorage().getMaxTermOrder();
    for (unsigned N = 1; N <= maxo; ++N) {
        const Lattice::TermList& tl = L.getTermStorage().getTerms(N);
        for (Lattice::TermList::const_iterator it = tl.begin(); it != tl.end(); ++it) {
            const Lattice::Term& T = **it; std::vector<std::pair<bool,int> > seq;
            for (unsigned k = 0; k < N; ++k) {
                int idx = IC.getIndex(T.SiteLabels[k], T.Orbitals[k], T.Spins[k]);
                if (idx >= M) throw std::runtime_error("lattice_H: term refers to unknown index");
                seq.push_back(std::make_pair((bool)T.OperatorSequence[k], idx));
            }
            H += cd(T.Value) * refed::monomial(M, seq);
        }
    }
    return H;
}

std::string mat_key_full(const refed::Mat& H) {
    std::string k; k.reserve(H.size() * 4);
    for (int j = 0; j < H.cols(); ++j) for (int i = 0; i < H.rows(); ++i) {
        cd v = H(i, j); long long re = llround(v.real() * 1e9), im = llround(v.imag() * 1e9);
        if (re == 0 && im == 0) { k += '.'; continue; }
        k += std::to_string(re); if (im) { k += 'i'; k += std::to_string(im); } k += ',';
    }
    return k;
}
std::string mat_key(const refed::Mat& H) {
    std::string k; k.reserve(H.size() * 4);
    for (int j = 0; j < H.cols(); ++j) for (int i = 0; i <= j; ++i) {
        cd v = H(i, j); long long re = llround(v.real() * 1e9), im = llround(v.imag() * 1e9);
        if (re == 0 && im == 0) { k += '.'; continue; }
        k += std::to_string(re); if (im) { k += 'i'; k += std::to_string(im); } k += ',';
    }
    return k;
}

BFSResult bfs_models(const Shape& sh, const std::vector<Gen>& A, int maxdepth, size_t cap ) {
    BFSResult R; R.transitions = R.duplicates = R.rejected = 0;
    std::unordered_set<std::string> seen; std::vector<MState> frontier;
    auto key_of = [&](const std::vector<int>& h, std::string& key) -> bool {
        try {
            Lattice L; build_sites(L, sh); for (int g : h) apply_lib(L, A[g]);
            IndexClassification IC(L.getSiteMap()); IC.prepare();
            key = mat_key(lattice_H(L, IC)); return true;
        } catch (std::exception&) { return false; }
    };
    { MState s; s.depth = 0; std::string k; key_of(s.hist, k); seen.insert(k); R.states.push_back(s); frontier.push_back(s); R.per_level.push_back(1); }
    for (int d = 1; d <= maxdepth; ++d) {
        std::vector<MState> next;
        for (auto& st : frontier) for (size_t g = 0; g < A.size(); ++g) {
            std::vector<int> h = st.hist; h.push_back((int)g); std::string k; R.transitions++;
            if (!key_of(h, k)) { R.rejected++; continue; }
            if (!seen.insert(k).second) { R.duplicates++; continue; }
            MState n; n.hist = h; n.depth = d; next.push_back(n); R.states.push_back(n);
            if (cap && R.states.size() >= cap) { R.per_level.push_back(next.size()); return R; }
        }
        R.per_level.push_back(next.size()); frontier.swap(next);
    }
    return R;
}

std::string hist_repr(const Shape& sh, const std::vector<Gen>& A, const std::vector<int>& h) {
    std::string s = sh.id + ":";
    for (size_t i = 0; i < h.size(); ++i) { s += (i ? ";" : ""); s += A[h[i]].repr(); }
    if (h.empty()) s += "<empty>";
    return s;
}

std::vector<Gen> hist_gens(const std::vector<Gen>& A, const std::vector<int>& h) { std::vector<Gen> g; for (int i : h) g.push_back(A[i]); return g; }

bool nontrivial_H(const refed::Mat& H) {
    refed::Mat off = H; off.diagonal().setZero(); if (maxabs(off) > 1e-12) return true;
    std::vector<double> d; for (int i = 0; i < H.rows(); ++i) d.push_back(H(i, i).real()); std::sort(d.begin(), d.end());
    for (size_t i = 1; i < d.size(); ++i) if (std::abs(d[i] - d[i - 1]) < 1e-9) return true;
    return false;
}

} // namespace
