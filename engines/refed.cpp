#include "refed.hpp"
namespace refed {

Mat c_op(int M, int i) {
    int D = 1 << M; Mat m = Mat::Zero(D, D);
    for (unsigned long s = 0; s < (unsigned long)D; ++s)
        if (s & (1ul << i)) m(s ^ (1ul << i), s) = (popcount_below(s, i) & 1) ? -1.0 : 1.0;
    return m;
}

Mat cdag_op(int M, int i) { return c_op(M, i).adjoint(); }

Mat n_op(int M, int i) { return cdag_op(M, i) * c_op(M, i); }

Mat ident(int M) { int D = 1 << M; return Mat::Identity(D, D); }

Mat monomial(int M, const std::vector<std::pair<bool,int> >& seq) {
    // product O_1 O_2 ... O_n built by letting the factors act on every basis state, rightmost factor first
    // (same matrices as multiplying c_op/cdag_op, without the dense products)
    int D = 1 << M; Mat r = Mat::Zero(D, D);
    for (unsigned long s0 = 0; s0 < (unsigned long)D; ++s0) {
        unsigned long s = s0; int sign = 1; bool dead = false;
        for (int k = (int)seq.size() - 1; k >= 0 && !dead; --k) {
            int i = seq[k].second; bool occ = (s >> i) & 1ul;
            if (seq[k].first == occ) { dead = true; break; }        // creation on occupied / annihilation on empty
            if (popcount_below(s, i) & 1) sign = -sign;
            s ^= (1ul << i);
        }
        if (!dead) r(s, s0) += double(sign);
    }
    return r;
}

Spectrum diagonalize(const Mat& H, double beta) {
    Spectrum sp; sp.D = H.rows(); sp.beta = beta;
    Eigen::SelfAdjointEigenSolver<Mat> es(H);
    if (es.info() != Eigen::Success) throw std::runtime_error("refed: eigensolver failed");
    sp.E = es.eigenvalues(); sp.U = es.eigenvectors(); sp.E0 = sp.E.minCoeff();
    sp.bw.resize(sp.D); sp.Z = 0;
    for (int a = 0; a < sp.D; ++a) { sp.bw(a) = std::exp(-beta * (sp.E(a) - sp.E0)); sp.Z += sp.bw(a); }
    sp.w = sp.bw / sp.Z;
    return sp;
}

Spectrum spectrum_from(const RVec& E, const Mat& U, double beta) {
    Spectrum sp; sp.D = E.size(); sp.beta = beta; sp.E = E; sp.U = U; sp.E0 = E.minCoeff(); sp.bw.resize(sp.D); sp.Z = 0;
    for (int a = 0; a < sp.D; ++a) { sp.bw(a) = std::exp(-beta * (sp.E(a) - sp.E0)); sp.Z += sp.bw(a); }
    sp.w = sp.bw / sp.Z; return sp;
}
Mat to_eigenbasis(const Spectrum& sp, const Mat& O) { return sp.U.adjoint() * O * sp.U; }

Lehmann1 gf_terms(const Spectrum& sp, const Mat& Ci, const Mat& CXj, const std::vector<char>* keep) {   // Ci, CXj in eigenbasis
    Lehmann1 L; int D = sp.D;
    for (int a = 0; a < D; ++a) for (int b = 0; b < D; ++b) {
        cd m = Ci(a, b) * CXj(b, a);
        if (std::abs(m) < 1e-300) continue;
        if (keep && !(*keep)[a] && !(*keep)[b]) continue;
        L.R.push_back(m * (sp.w(a) + sp.w(b))); L.P.push_back(sp.E(b) - sp.E(a)); L.a.push_back(a); L.b.push_back(b);
    }
    return L;
}

Val gf_eval(const Lehmann1& L, cd z) {
    Val r; for (size_t k = 0; k < L.R.size(); ++k) { cd t = L.R[k] / (z - L.P[k]); r.v += t; r.S += std::abs(t); } return r;
}

Val gf_tau(const Spectrum& sp, const Mat& Ci, const Mat& CXj, double tau) {
    Val r; int D = sp.D; double beta = sp.beta;
    for (int a = 0; a < D; ++a) for (int b = 0; b < D; ++b) {
        cd m = Ci(a, b) * CXj(b, a); if (std::abs(m) < 1e-300) continue;
        cd t = -m * std::exp(-(beta - tau) * (sp.E(a) - sp.E0) - tau * (sp.E(b) - sp.E0)) / sp.Z;
        r.v += t; r.S += std::abs(t);
    }
    return r;
}

Val chi2(const Spectrum& sp, const Mat& A, const Mat& B, cd W, const std::vector<char>* keep) {
    Val r; int D = sp.D; double beta = sp.beta;
    for (int a = 0; a < D; ++a) for (int b = 0; b < D; ++b) {
        cd m = A(a, b) * B(b, a); if (std::abs(m) < 1e-300) continue; if (keep && !(*keep)[a] && !(*keep)[b]) continue;
        cd t = m * dd2(beta, cd(-(sp.E(a) - sp.E0), 0), cd(-(sp.E(b) - sp.E0), 0) + W) / sp.Z;
        r.v += t; r.S += std::abs(t);
    }
    return r;
}

Val corr_tau(const Spectrum& sp, const Mat& A, const Mat& B, double tau, const std::vector<char>* keep) {
    Val r; int D = sp.D; double beta = sp.beta;
    for (int a = 0; a < D; ++a) for (int b = 0; b < D; ++b) {
        cd m = A(a, b) * B(b, a); if (std::abs(m) < 1e-300) continue; if (keep && !(*keep)[a] && !(*keep)[b]) continue;
        cd t = m * std::exp(-(beta - tau) * (sp.E(a) - sp.E0) - tau * (sp.E(b) - sp.E0)) / sp.Z;
        r.v += t; r.S += std::abs(t);
    }
    return r;
}

cd thermal_avg(const Spectrum& sp, const Mat& Oeig) { cd r = 0; for (int a = 0; a < sp.D; ++a) r += sp.w(a) * Oeig(a, a); return r; }

SparseRows sparsify(const Mat& O, double thr ) {
    SparseRows s; s.rows.resize(O.rows());
    for (int a = 0; a < O.rows(); ++a) for (int b = 0; b < O.cols(); ++b) if (std::abs(O(a, b)) > thr) s.rows[a].push_back(std::make_pair(b, O(a, b)));
    return s;
}

Val simplex4(const Spectrum& sp, const SparseRows& O1, const SparseRows& O2, const SparseRows& O3, const Mat& O4,
                    cd W1, cd W2, cd W3, const std::vector<char>* keep) {
    Val r; int D = sp.D; double beta = sp.beta;
    for (int a = 0; a < D; ++a) {
        cd x0(-(sp.E(a) - sp.E0), 0);
        for (size_t ib = 0; ib < O1.rows[a].size(); ++ib) {
            int b = O1.rows[a][ib].first; cd m1 = O1.rows[a][ib].second;
            cd x1 = cd(-(sp.E(b) - sp.E0), 0) + W1;
            for (size_t ic = 0; ic < O2.rows[b].size(); ++ic) {
                int c = O2.rows[b][ic].first; cd m2 = m1 * O2.rows[b][ic].second;
                cd x2 = cd(-(sp.E(c) - sp.E0), 0) + W1 + W2;
                for (size_t id = 0; id < O3.rows[c].size(); ++id) {
                    int d = O3.rows[c][id].first; cd m4 = O4(d, a);
                    if (std::abs(m4) < 1e-13) continue;
                    if (keep && !(*keep)[a] && !(*keep)[b] && !(*keep)[c] && !(*keep)[d]) continue;
                    cd m = m2 * O3.rows[c][id].second * m4;
                    cd x3 = cd(-(sp.E(d) - sp.E0), 0) + W1 + W2 + W3;
                    cd t = m * dd4(beta, x0, x1, x2, x3) / sp.Z;
                    r.v += t; r.S += std::abs(t);
                }
            }
        }
    }
    return r;
}

std::string selftest() {
    // CAR
    for (int M = 1; M <= 3; ++M) for (int i = 0; i < M; ++i) for (int j = 0; j < M; ++j) {
        Mat ac = c_op(M, i) * cdag_op(M, j) + cdag_op(M, j) * c_op(M, i);
        Mat ex = (i == j) ? ident(M) : Mat(Mat::Zero(1 << M, 1 << M));
        if ((ac - ex).norm() > 1e-14) return "CAR {c,c+}";
        Mat aa = c_op(M, i) * c_op(M, j) + c_op(M, j) * c_op(M, i);
        if (aa.norm() > 1e-14) return "CAR {c,c}";
    }
    {   // monomial() against explicit dense products
        int M = 3; std::vector<std::pair<bool,int> > q; q.push_back(std::make_pair(true, 2)); q.push_back(std::make_pair(false, 0)); q.push_back(std::make_pair(true, 1)); q.push_back(std::make_pair(false, 1));
        Mat d = cdag_op(M, 2) * c_op(M, 0) * cdag_op(M, 1) * c_op(M, 1);
        if ((monomial(M, q) - d).norm() > 1e-14) return "monomial";
    }
    // divided differences against the explicit distinct-node formula and against a confluent limit
    {
        double beta = 3.0; cd x[4] = { cd(-0.3, 0), cd(-1.1, M_PI / beta), cd(-0.7, 2 * M_PI / beta), cd(-0.2, -M_PI / beta) };
        cd s = 0; for (int k = 0; k < 4; ++k) { cd d = 1; for (int j = 0; j < 4; ++j) if (j != k) d *= (x[k] - x[j]); s += std::exp(beta * x[k]) / d; }
        if (std::abs(s - dd4(beta, x[0], x[1], x[2], x[3])) > 1e-12 * (1 + std::abs(s))) return "dd4 distinct";
        // confluent: x2 -> x0 numerically vs limit
        cd a = dd4(beta, x[0], x[1], x[0], x[3]);
        cd b = dd4(beta, x[0], x[1], x[0] + cd(1e-6, 0), x[3]);
        if (std::abs(a - b) > 1e-5 * (1 + std::abs(a))) return "dd4 confluent";
        cd c2 = dd2(beta, x[0], x[0]); if (std::abs(c2 - beta * std::exp(beta * x[0])) > 1e-13) return "dd2 confluent";
    }
    // Hubbard atom: G_upup(iw) = (1-n)/(iw+mu) + n/(iw+mu-U) at half filling, and free 3x3 propagator
    {
        int M = 2; double U = 2.0, mu = 1.0, beta = 5.0;
        Mat H = U * n_op(M, 0) * n_op(M, 1) - mu * (n_op(M, 0) + n_op(M, 1));
        Spectrum sp = diagonalize(H, beta);
        Mat C = to_eigenbasis(sp, c_op(M, 0)), CX = to_eigenbasis(sp, cdag_op(M, 0));
        Lehmann1 L = gf_terms(sp, C, CX);
        for (long n = -3; n < 3; ++n) { cd z = matsubara_f(beta, n); cd ex = 0.5 / (z + mu) + 0.5 / (z + mu - U);
            if (std::abs(gf_eval(L, z).v - ex) > 1e-12) return "atom G"; }
        // chi_{uuuu} of the atom must be antisymmetric under exchange of the two annihilators
        TwoPGFRef X(sp, C, to_eigenbasis(sp, c_op(M, 1)), to_eigenbasis(sp, cdag_op(M, 1)), CX);
        TwoPGFRef Y(sp, to_eigenbasis(sp, c_op(M, 1)), C, to_eigenbasis(sp, cdag_op(M, 1)), CX);
        for (long n1 = -2; n1 < 2; ++n1) for (long n2 = -2; n2 < 2; ++n2) for (long n3 = -2; n3 < 2; ++n3) {
            cd a = X(matsubara_f(beta, n1), matsubara_f(beta, n2), matsubara_f(beta, n3)).v;
            cd b = Y(matsubara_f(beta, n2), matsubara_f(beta, n1), matsubara_f(beta, n3)).v;
            if (std::abs(a + b) > 1e-11 * (1 + std::abs(a))) return "atom chi exchange";
        }
    }
    {
        int M = 3; double beta = 2.0; Eigen::Matrix3d h; h << 0.3, -1.0, 0.5, -1.0, -0.2, 0.0, 0.5, 0.0, 1.0;
        Mat H = Mat::Zero(8, 8);
        for (int i = 0; i < 3; ++i) for (int j = 0; j < 3; ++j) H += h(i, j) * cdag_op(M, i) * c_op(M, j);
        Spectrum sp = diagonalize(H, beta);
        std::vector<Mat> C(3), CX(3); for (int i = 0; i < 3; ++i) { C[i] = to_eigenbasis(sp, c_op(M, i)); CX[i] = to_eigenbasis(sp, cdag_op(M, i)); }
        for (long n = -2; n < 2; ++n) {
            cd z = matsubara_f(beta, n);
            Eigen::Matrix3cd g = (z * Eigen::Matrix3cd::Identity() - h.cast<cd>()).inverse();
            for (int i = 0; i < 3; ++i) for (int j = 0; j < 3; ++j)
                if (std::abs(gf_eval(gf_terms(sp, C[i], CX[j]), z).v - g(i, j)) > 1e-12) return "free G";
        }
        // Wick: chi_ijkl = beta d(w1,w4)... checked at two tuples: Gamma must vanish
        int tup[2][4] = {{0,1,1,0},{0,2,1,0}};
        for (int t = 0; t < 2; ++t) {
            int i = tup[t][0], j = tup[t][1], k = tup[t][2], l = tup[t][3];
            TwoPGFRef X(sp, C[i], C[j], CX[k], CX[l]);
            for (long n1 = -1; n1 < 1; ++n1) for (long n2 = -1; n2 < 1; ++n2) for (long n3 = -1; n3 < 1; ++n3) {
                cd z1 = matsubara_f(beta, n1), z2 = matsubara_f(beta, n2), z3 = matsubara_f(beta, n3);
                cd chi = X(z1, z2, z3).v;
                auto G = [&](int a, int b, cd z) { return gf_eval(gf_terms(sp, C[a], CX[b]), z).v; };
                cd chi0 = 0;
                if (n2 == n3) chi0 += beta * G(i, l, z1) * G(j, k, z2);
                if (n1 == n3) chi0 -= beta * G(i, k, z1) * G(j, l, z2);
                if (std::abs(chi - chi0) > 1e-10) return "Wick";
            }
        }
    }
    return "";
}

} // namespace
