#include "model.hpp"
namespace mx {

Shape make_shape(const std::string& id) {
    Shape s; s.id = id;
    auto add = [&](const char* l, int o, int sp) { SiteSpec x; x.label = l; x.orb = o; x.spin = sp; s.sites.push_back(x); };
    if (id == "S1") { add("A", 1, 2); }
    else if (id == "S2") { add("A", 1, 1); add("B", 1, 1); }
    else if (id == "S3") { add("A", 1, 1); add("B", 1, 1); add("C", 1, 1); }
    else if (id == "S4") { add("A", 1, 2); add("B", 1, 1); }
    else if (id == "S4r") { add("A", 1, 1); add("B", 1, 2); }     // first site has FEWER spins than a later one
    else if (id == "S5") { add("A", 1, 3); }
    else if (id == "S6") { add("A", 1, 2); add("B", 1, 2); }
    else if (id == "S7") { add("A", 2, 2); }
    else if (id == "S8") { add("A", 1, 2); add("B", 1, 2); add("C", 1, 1); }
    else if (id == "S9") { add("A", 1, 2); add("B", 1, 2); add("C", 1, 2); }
    else if (id == "S10") { add("A", 3, 2); }
    else if (id == "S12") { add("A", 4, 2); }                     // four orbitals (M=8): preset term lists only (C04), never diagonalised
    else if (id == "S11") { add("A", 2, 1); add("B", 2, 1); }     // two spinless two-orbital sites: inter-site inter-orbital hopping
    else throw std::runtime_error("unknown shape " + id);
    return s;
}

ModeMap documented_order(const Shape& sh, bool order_spins) {
    std::vector<SiteSpec> st = sh.sites;
    std::sort(st.begin(), st.end(), [](const SiteSpec& a, const SiteSpec& b) { return a.label < b.label; });
    std::map<std::tuple<std::string,int,int>, int> m; int idx = 0;
    if (!order_spins) {
        for (auto& s : st) for (int o = 0; o < s.orb; ++o) for (int z = 0; z < s.spin; ++z) m[std::make_tuple(s.label, o, z)] = idx++;
    } else {
        int maxs = 0; for (auto& s : st) maxs = std::max<int>(maxs, s.spin);
        for (int z = 0; z < maxs; ++z) for (auto& s : st) { if (z >= s.spin) continue; for (int o = 0; o < s.orb; ++o) m[std::make_tuple(s.label, o, z)] = idx++; }
    }
    return [m](const std::string& l, int o, int z) { auto it = m.find(std::make_tuple(l, o, z)); return it == m.end() ? -1 : it->second; };
}

ModeMap library_order(const IndexClassification& IC) {
    const IndexClassification* p = &IC;
    return [p](const std::string& l, int o, int z) { int i = p->getIndex(l, o, z); return i >= (int)p->getIndexSize() ? -1 : i; };
}

Lattice::Term* make_term(const std::vector<RawOp>& raw, MelemType value) {
    Lattice::Term* T = new Lattice::Term(raw.size());
    for (size_t i = 0; i < raw.size(); ++i) {
        T->OperatorSequence[i] = raw[i].creation; T->SiteLabels[i] = raw[i].label; T->Orbitals[i] = raw[i].orb; T->Spins[i] = raw[i].spin;
    }
    T->Value = value; return T;
}

void apply_lib(Lattice& L, const Gen& g) {
    switch (g.kind) {
    case LEVEL: LatticePresets::addLevel(&L, g.l1, to_melem(g.v[0])); break;
    case MAGN: LatticePresets::addMagnetization(&L, g.l1, to_melem(g.v[0])); break;
    case COULOMB_S: LatticePresets::addCoulombS(&L, g.l1, to_melem(g.v[0]), to_melem(g.v[1])); break;
    case COULOMB_P3: LatticePresets::addCoulombP(&L, g.l1, to_melem(g.v[0]), to_melem(g.v[1]), to_melem(g.v[2])); break;
    case COULOMB_P4: LatticePresets::addCoulombP(&L, g.l1, to_melem(g.v[0]), to_melem(g.v[1]), to_melem(g.v[2]), to_melem(g.v[3])); break;
    case HOP_ALL: LatticePresets::addHopping(&L, g.l1, g.l2, to_melem(g.v[0])); break;
    case HOP_OO: LatticePresets::addHopping(&L, g.l1, g.l2, to_melem(g.v[0]), (unsigned short)g.o1, (unsigned short)g.o2); break;
    case HOP_OOS: LatticePresets::addHopping(&L, g.l1, g.l2, to_melem(g.v[0]), (unsigned short)g.o1, (unsigned short)g.o2, (unsigned short)g.s1); break;
    case HOP_OOSS: LatticePresets::addHopping(&L, g.l1, g.l2, to_melem(g.v[0]), (unsigned short)g.o1, (unsigned short)g.o2, (unsigned short)g.s1, (unsigned short)g.s2); break;
    case SZSZ: LatticePresets::addSzSz(&L, g.l1, g.l2, to_melem(g.v[0])); break;
    case SS: LatticePresets::addSS(&L, g.l1, g.l2, to_melem(g.v[0])); break;
    case RAW: {
        Lattice::Term* T = make_term(g.raw, to_melem(g.v[0])); L.addTerm(T); delete T;
        if (g.herm) {
            std::vector<RawOp> r(g.raw.rbegin(), g.raw.rend()); for (auto& x : r) x.creation = !x.creation;
            Lattice::Term* T2 = make_term(r, to_melem(std::conj(g.v[0]))); L.addTerm(T2); delete T2;
        }
        break; }
    }
}

refed::Mat ref_meaning(const Gen& g, const Shape& sh, const ModeMap& mm, int M, double magn_factor ) {
    using refed::Mat; using refed::n_op; using refed::c_op; using refed::cdag_op;
    Mat H = Mat::Zero(1 << M, 1 << M);
    auto md = [&](const std::string& l, int o, int z) { int i = mm(l, o, z); if (i < 0) throw std::runtime_error("ref: no mode"); return i; };
    auto N = [&](const std::string& l, int o, int z) { return n_op(M, md(l, o, z)); };
    const SiteSpec* a = sh.find(g.l1); const SiteSpec* b = sh.find(g.l2);
    cd v0 = g.v[0];
#ifndef POMEROL_COMPLEX_MATRIX_ELEMENTS
    cd vv[4] = { g.v[0].real(), g.v[1].real(), g.v[2].real(), g.v[3].real() }; v0 = vv[0];
#else
    cd vv[4] = { g.v[0], g.v[1], g.v[2], g.v[3] };
#endif
    switch (g.kind) {
    case LEVEL: for (int o = 0; o < a->orb; ++o) for (int z = 0; z < a->spin; ++z) H += v0 * N(g.l1, o, z); break;
    case MAGN:  // sum_alpha mH 1/2 (n_up - n_down)
        for (int o = 0; o < a->orb; ++o) H += v0 * magn_factor * (N(g.l1, o, up) - N(g.l1, o, down)); break;
    case COULOMB_S:  // sum_{alpha, s>s'} U n n + sum eps n
        for (int o = 0; o < a->orb; ++o) for (int z = 0; z < a->spin; ++z) { H += vv[1] * N(g.l1, o, z); for (int z2 = 0; z2 < z; ++z2) H += vv[0] * N(g.l1, o, z) * N(g.l1, o, z2); }
        break;
    case COULOMB_P3: case COULOMB_P4: {
        cd U = vv[0], Up, J, eps;
        if (g.kind == COULOMB_P3) { J = vv[1]; eps = vv[2]; Up = U - 2.0 * J; } else { Up = vv[1]; J = vv[2]; eps = vv[3]; }
        // U sum_{a, s>s'} n n + U' sum_{a!=a', s>s'} n_{a s} n_{a' s'} + (U'-J)/2 sum_{a!=a', s} n_{a s} n_{a' s}
        //  - J sum_{a!=a', s>s'} ( c+_{a s} c+_{a' s'} c_{a' s} c_{a s'} + c+_{a' s} c+_{a' s'} c_{a s} c_{a s'} )  + eps sum n
        for (int o = 0; o < a->orb; ++o) for (int z = 0; z < a->spin; ++z) {
            H += eps * N(g.l1, o, z);
            for (int o2 = 0; o2 < a->orb; ++o2) if (o2 != o) H += (Up - J) / 2.0 * N(g.l1, o, z) * N(g.l1, o2, z);
            for (int z2 = 0; z2 < z; ++z2) {
                H += U * N(g.l1, o, z) * N(g.l1, o, z2);
                for (int o2 = 0; o2 < a->orb; ++o2) if (o2 != o) {
                    H += Up * N(g.l1, o, z) * N(g.l1, o2, z2);
                    H += -J * cdag_op(M, md(g.l1, o, z)) * cdag_op(M, md(g.l1, o2, z2)) * c_op(M, md(g.l1, o2, z)) * c_op(M, md(g.l1, o, z2));
                    H += -J * cdag_op(M, md(g.l1, o2, z)) * cdag_op(M, md(g.l1, o2, z2)) * c_op(M, md(g.l1, o, z)) * c_op(M, md(g.l1, o, z2));
                }
            }
        }
        break; }
    case HOP_ALL:  // sum_{s,a} t c+_{i a s} c_{j a s} + h.c.
        for (int z = 0; z < a->spin; ++z) for (int o = 0; o < a->orb; ++o) {
            Mat t = v0 * cdag_op(M, md(g.l1, o, z)) * c_op(M, md(g.l2, o, z)); H += t + t.adjoint(); }
        break;
    case HOP_OO: for (int z = 0; z < a->spin; ++z) { Mat t = v0 * cdag_op(M, md(g.l1, g.o1, z)) * c_op(M, md(g.l2, g.o2, z)); H += t + t.adjoint(); } break;
    case HOP_OOS: { Mat t = v0 * cdag_op(M, md(g.l1, g.o1, g.s1)) * c_op(M, md(g.l2, g.o2, g.s1)); H += t + t.adjoint(); break; }
    case HOP_OOSS: { Mat t = v0 * cdag_op(M, md(g.l1, g.o1, g.s1)) * c_op(M, md(g.l2, g.o2, g.s2)); H += t + t.adjoint(); break; }
    case SZSZ: case SS:  // sum_a J Sz_{i a} Sz_{j a}  /  sum_a J S_{i a} . S_{j a}
        for (int o = 0; o < a->orb; ++o) {
            Mat sz1 = 0.5 * (N(g.l1, o, up) - N(g.l1, o, down)), sz2 = 0.5 * (N(g.l2, o, up) - N(g.l2, o, down));
            H += v0 * sz1 * sz2;
            if (g.kind == SS) {
                Mat sp1 = cdag_op(M, md(g.l1, o, up)) * c_op(M, md(g.l1, o, down)), sp2 = cdag_op(M, md(g.l2, o, up)) * c_op(M, md(g.l2, o, down));
                H += v0 * 0.5 * (sp1 * sp2.adjoint() + sp1.adjoint() * sp2);
            }
        }
        (void)b; break;
    case RAW: {
        std::vector<std::pair<bool,int> > seq; for (auto& r : g.raw) seq.push_back(std::make_pair(r.creation, md(r.label, r.orb, r.spin)));
        Mat t = v0 * refed::monomial(M, seq); H += t; if (g.herm) H += t.adjoint(); break; }
    }
    return H;
}

void build_sites(Lattice& L, const Shape& sh) { for (auto& s : sh.sites) L.addSite(new Lattice::Site(s.label, s.orb, s.spin)); }

std::vector<Gen> alphabet(const Shape& sh, const AlphabetOpts& op) {
    std::vector<Gen> A; const std::vector<double>& V = op.V;
    auto push = [&](Gen g) { A.push_back(g); };
    for (auto& s : sh.sites) {
        for (double v : V) { Gen g; g.kind = LEVEL; g.l1 = s.label; g.v[0] = v; push(g); }
        if (s.spin == 2) for (double v : V) { Gen g; g.kind = MAGN; g.l1 = s.label; g.v[0] = v; push(g); }
        if (s.spin >= 2) for (double U : V) for (int e = 0; e < 2; ++e) { Gen g; g.kind = COULOMB_S; g.l1 = s.label; g.v[0] = U; g.v[1] = e ? -U / 2 : 0.0; push(g); }
        if (s.orb >= 2 && s.spin >= 2) {
            for (double U : V) for (double J : V) { if (!op.rich && J != V[0]) continue; Gen g; g.kind = COULOMB_P3; g.l1 = s.label; g.v[0] = U; g.v[1] = J; g.v[2] = 0; push(g); }
            { Gen g; g.kind = COULOMB_P4; g.l1 = s.label; g.v[0] = 2.0; g.v[1] = 0.5; g.v[2] = -1.0; g.v[3] = 0.5; push(g); }
            for (double v : V) { Gen g; g.kind = HOP_OO; g.l1 = g.l2 = s.label; g.v[0] = v; g.o1 = 0; g.o2 = 1; push(g); }    // inter-orbital hybridisation
        }
        if (s.spin >= 2) { Gen g; g.kind = HOP_OOSS; g.l1 = g.l2 = s.label; g.v[0] = V[1 % V.size()]; g.o1 = g.o2 = 0; g.s1 = 0; g.s2 = 1; push(g); }  // on-site spin flip (breaks Sz)
        if (s.spin == 2 && s.orb >= 1 && op.rich) { Gen g; g.kind = SZSZ; g.l1 = g.l2 = s.label; g.v[0] = V[0]; push(g); }
    }
    for (size_t i = 0; i < sh.sites.size(); ++i) for (size_t j = i + 1; j < sh.sites.size(); ++j) {
        const SiteSpec& a = sh.sites[i]; const SiteSpec& b = sh.sites[j];
        if (a.orb == b.orb && a.spin == b.spin) for (double v : V) { Gen g; g.kind = HOP_ALL; g.l1 = a.label; g.l2 = b.label; g.v[0] = v; push(g); }
        else for (double v : V) { Gen g; g.kind = HOP_OOS; g.l1 = a.label; g.l2 = b.label; g.v[0] = v; g.o1 = g.o2 = 0; g.s1 = 0; push(g); }
        if (a.orb >= 2 && b.orb >= 2) for (int oo = 0; oo < 2; ++oo) { Gen g; g.kind = HOP_OO; g.l1 = a.label; g.l2 = b.label; g.v[0] = V[oo % V.size()]; g.o1 = oo; g.o2 = 1 - oo; if (a.spin == b.spin) push(g); }   // inter-site AND inter-orbital
        if (a.spin >= 2 && b.spin >= 2) { Gen g; g.kind = HOP_OOSS; g.l1 = a.label; g.l2 = b.label; g.v[0] = V[0]; g.o1 = g.o2 = 0; g.s1 = 0; g.s2 = 1; push(g); }   // spin-flip hopping
        if (a.spin == 2 && b.spin == 2 && a.orb == b.orb) {
            for (double v : V) { if (!op.rich && v != V[0]) continue; Gen g; g.kind = SZSZ; g.l1 = a.label; g.l2 = b.label; g.v[0] = v; push(g); }
            for (double v : V) { if (!op.rich && v != V[0]) continue; Gen g; g.kind = SS; g.l1 = a.label; g.l2 = b.label; g.v[0] = v; push(g); }
        }
    }
    if (op.with_raw) {
        // all modes in shape order
        std::vector<RawOp> modes; for (auto& s : sh.sites) for (int o = 0; o < s.orb; ++o) for (int z = 0; z < s.spin; ++z) { RawOp r; r.creation = false; r.label = s.label; r.orb = o; r.spin = z; modes.push_back(r); }
        if (modes.size() >= 2) {    // pair field  D c+_0 c+_1 + h.c.   (breaks N)
            Gen g; g.kind = RAW; g.v[0] = 0.5; g.herm = true; RawOp a = modes[0], b = modes[1]; a.creation = b.creation = true; g.raw = { a, b }; push(g);
        }
        if (modes.size() >= 3) {    // 6-operator density term n_0 n_1 n_2 (written c+ c c+ c c+ c)
            Gen g; g.kind = RAW; g.v[0] = 2.0; g.herm = false;
            for (int k = 0; k < 3; ++k) { RawOp a = modes[k]; a.creation = true; g.raw.push_back(a); a.creation = false; g.raw.push_back(a); } push(g);
        }
        if (modes.size() >= 4) {    // correlated pair hopping c+_2 c+_3 c_1 c_0 + h.c.
            Gen g; g.kind = RAW; g.v[0] = -1.0; g.herm = true; RawOp a = modes[2], b = modes[3], c = modes[1], d = modes[0]; a.creation = b.creation = true; g.raw = { a, b, c, d }; push(g);
        }
    }
    if (op.with_offsets) for (double v : { 1e3, -1e3 }) { Gen g; g.kind = LEVEL; g.l1 = sh.sites[0].label; g.v[0] = v; push(g); }
    return A;
}

#ifdef POMEROL_COMPLEX_MATRIX_ELEMENTS
void add_complex_gens(const Shape& sh, std::vector<Gen>& A) {
    for (size_t i = 0; i < sh.sites.size(); ++i) for (size_t j = i + 1; j < sh.sites.size(); ++j) {
        const SiteSpec& a = sh.sites[i]; const SiteSpec& b = sh.sites[j];
        for (cd v : { cd(0, 1), cd(0.5, 0.5) }) { Gen g; g.kind = HOP_OOS; g.l1 = a.label; g.l2 = b.label; g.v[0] = v; g.o1 = g.o2 = 0; g.s1 = 0; A.push_back(g); }
        if (a.orb == b.orb && a.spin == b.spin) { Gen g; g.kind = HOP_ALL; g.l1 = a.label; g.l2 = b.label; g.v[0] = cd(0.5, -1); A.push_back(g); }
    }
    std::vector<RawOp> modes; for (auto& s : sh.sites) for (int o = 0; o < s.orb; ++o) for (int z = 0; z < s.spin; ++z) { RawOp r; r.creation = false; r.label = s.label; r.orb = o; r.spin = z; modes.push_back(r); }
    if (modes.size() >= 2) { Gen g; g.kind = RAW; g.v[0] = cd(0, 0.5); g.herm = true; RawOp a = modes[0], b = modes[1]; a.creation = b.creation = true; g.raw = { a, b }; A.push_back(g); }
}

#endif
} // namespace
