// referenced by the static Boost.MPI but not on any explored path: fail loudly if a change starts using them
// (no mpi.h here: the real prototypes would conflict with these parameterless definitions)
#include <cstdio>
#include <cstdlib>
#define VMPI_STUB(name) extern "C" int name() { fprintf(stderr, "vmpi: " #name " is not modelled (a code change started using it?)\n"); abort(); return 0; }
VMPI_STUB(MPI_Group_union) VMPI_STUB(MPI_Group_translate_ranks) VMPI_STUB(MPI_Group_size) VMPI_STUB(MPI_Group_rank) VMPI_STUB(MPI_Group_intersection)
VMPI_STUB(MPI_Group_incl) VMPI_STUB(MPI_Group_excl) VMPI_STUB(MPI_Group_difference) VMPI_STUB(MPI_Group_compare) VMPI_STUB(MPI_Comm_group) VMPI_STUB(MPI_Comm_create)
