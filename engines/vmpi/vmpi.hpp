// vmpi -- a virtual MPI (and virtual OpenMP team) under a controlled scheduler.   DESIGN.md section 6
// Ranks are threads of one process, strictly serialised: exactly one runs, the others wait.  Every visible MPI call is a
// scheduling point: the rank publishes its pending operation and the scheduler (main thread) decides who runs next.
// The executable is linked against the STATIC Boost.MPI and this file INSTEAD of libmpi / libgomp: any MPI or GOMP entry
// point not modelled here is a link error, not an unmodelled behaviour.
#pragma once
#include <cstdint>
#include <string>
#include <vector>
#include <functional>

namespace vmpi {

struct Config {
    int P;                   // ranks
    bool rendezvous;         // MPI_Send blocks until matched (zero buffering) instead of eager buffering
    bool delayed;            // a sent message stays in flight until the scheduler takes a separate 'deliver' action for its channel
                             // (choices >= P in the enabled list: P + ((comm*64 + src)*64 + dst)); default: delivered at once
    int omp_threads;         // size of the virtual OpenMP team
    int omp_order;           // 0 identity, 1 reverse, k>=2: rotation by k-1  (order in which the team members' bodies run)
    bool omp_free;           // run the team members as concurrently running pthreads (for the race-detector pass) instead of one after another
    long horizon;            // max scheduling points per execution
    bool detach_on_stop;     // when an execution stops early (deadlock, cut, ...) leave the blocked rank threads alone (the process is about to exit)
    Config() : P(1), rendezvous(false), delayed(false), omp_threads(1), omp_order(0), omp_free(false), horizon(50000), detach_on_stop(false) {}
};

struct Point { uint64_t k1, k2; int chosen; std::vector<int> enabled; std::vector<char> productive; };

struct Outcome {
    enum Kind { OK = 0, DEADLOCK, MISMATCH, EXCEPTION, HORIZON, DIVERGED, VIOLATION, CUT } kind;
    std::string detail;            // human readable: per-rank pending operations etc.
    std::vector<Point> points;     // every scheduling point of the execution
    std::vector<std::string> rank_error;    // exception text per rank ("" = returned normally)
    long leftover_messages;        // unmatched messages at the end
    Outcome() : kind(OK), leftover_messages(0) {}
};

typedef std::function<void(int rank)> RankMain;
// decide(point_index, enabled ranks, productive flags, key) -> rank to run, or -1 to stop the execution here (CUT)
typedef std::function<int(size_t, const std::vector<int>&, const std::vector<char>&, uint64_t, uint64_t)> Decider;

// run one execution: P rank threads execute body(rank) under the scheduler
Outcome run(const Config& cfg, const RankMain& body, const Decider& decide);

// ---- calls available to harness bodies (from a rank thread) ----
int  my_rank();                                   // world rank of the calling thread
void yield_point(const char* what, long arg);     // an always-enabled scheduling point (e.g. "a job takes arbitrarily long")
void note(uint64_t h);                            // fold a local fact into this rank's observation history (state key)
void checkpoint(uint64_t digest);                 // replace this rank's history by a digest of everything it holds (state merging)
void fail(const std::string& what);               // report a property violation from inside a rank body
uint64_t hash_bytes(const void* p, size_t n, uint64_t seed = 1469598103934665603ull);

} // namespace vmpi
