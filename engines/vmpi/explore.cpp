#include "explore.hpp"
#include <sys/time.h>
#include <cstring>
#include <unordered_map>
#include <sys/wait.h>
#include <sys/stat.h>
#include <unistd.h>
#include <fcntl.h>
#include <signal.h>
#include <cstdio>
#include <cstring>
#include <fstream>
#include <sstream>
#include <chrono>
#include <algorithm>

namespace vmpi {

struct Key { uint64_t a, b; bool operator==(const Key& o) const { return a == o.a && b == o.b; } };
struct KeyHash { size_t operator()(const Key& k) const { return k.a ^ (k.b * 0x9e3779b97f4a7c15ull); } };
typedef std::unordered_map<Key, int, KeyHash> Visited;     // key -> fewest deviations it was reached with

struct RunRec { int kind; std::string detail, violation, signature; std::vector<Point> pts; std::vector<int> defaults; bool ok_file; RunRec() : kind(0), ok_file(false) {} };

static std::string oneline(std::string s) { for (char& c : s) if (c == '\n' || c == '\r') c = ' '; return s; }

static void child_run(const ExploreCfg& cfg, const RankMain& body, const Oracle& oracle, const Reset& reset, const std::vector<int>& prefix, int prefix_dev, const Visited* visited, const std::string& path, double timeout) {
    int nul = open("/dev/null", O_WRONLY); if (nul >= 0) { dup2(nul, 1); }
    // watchdog against a rank that spins without any MPI call: counted in CPU time of this process (a loaded machine must not look like a
    // hang), with a generous wall-clock backstop for the case that nothing runs at all
    { struct itimerval it; memset(&it, 0, sizeof it); it.it_value.tv_sec = (long)std::max(1.0, timeout); setitimer(ITIMER_PROF, &it, 0); alarm((unsigned)std::max(120.0, timeout * 60)); }
    reset();
    std::vector<int> defaults; int last = -1; int dev = 0;
    Decider d = [&](size_t i, const std::vector<int>& en, const std::vector<char>& prod, uint64_t k1, uint64_t k2) -> int {
        int def = -1; for (size_t j = 0; j < en.size(); ++j) if (en[j] == last && prod[j]) def = last;
        if (def < 0) for (size_t j = 0; j < en.size(); ++j) if (prod[j]) { def = en[j]; break; }
        if (def < 0 && !en.empty()) def = en[0];        // only polls that cannot succeed are left: let the first poller advance in its cycle
        int ch;
        if (i < prefix.size()) ch = prefix[i];
        else { if (visited) { Key k = { k1, k2 }; auto it = visited->find(k); if (it != visited->end() && it->second <= dev) { defaults.push_back(def); return -1; } } ch = def; }
        defaults.push_back(def); if (ch != def) ++dev; last = ch; return ch;
    };
    Config mc = cfg.mpi; mc.detach_on_stop = true;
    Outcome o = run(mc, body, d);
    std::string sig, viol; if (o.kind == Outcome::OK) viol = oracle(o, sig);
    FILE* f = fopen(path.c_str(), "w"); if (!f) _exit(3);
    fprintf(f, "K %d\nT %s\nV %s\nS %s\n", (int)o.kind, oneline(o.detail).c_str(), oneline(viol).c_str(), oneline(sig).c_str());
    for (size_t i = 0; i < o.points.size(); ++i) { const Point& p = o.points[i]; fprintf(f, "P %llx %llx %d %d %zu", (unsigned long long)p.k1, (unsigned long long)p.k2, p.chosen, i < defaults.size() ? defaults[i] : -1, p.enabled.size()); for (size_t j = 0; j < p.enabled.size(); ++j) fprintf(f, " %d %d", p.enabled[j], (int)p.productive[j]); fprintf(f, "\n"); }
    fprintf(f, "E\n"); fclose(f); _exit(0);
}

static RunRec parse(const std::string& path) {
    RunRec r; std::ifstream f(path.c_str()); std::string line;
    while (std::getline(f, line)) {
        if (line.size() < 1) continue; char t = line[0]; std::string rest = line.size() > 2 ? line.substr(2) : "";
        if (t == 'K') r.kind = atoi(rest.c_str()); else if (t == 'T') r.detail = rest; else if (t == 'V') r.violation = rest; else if (t == 'S') r.signature = rest; else if (t == 'E') r.ok_file = true;
        else if (t == 'P') { std::istringstream is(rest); Point p; unsigned long long a, b; int def; size_t n; is >> std::hex >> a >> b >> std::dec >> p.chosen >> def >> n; p.k1 = a; p.k2 = b; for (size_t j = 0; j < n; ++j) { int e, pr; is >> e >> pr; p.enabled.push_back(e); p.productive.push_back((char)pr); } r.pts.push_back(p); r.defaults.push_back(def); }
    }
    return r;
}

struct Work { std::vector<int> prefix; int dev; bool retry; };

ExploreResult explore(const ExploreCfg& cfg, const RankMain& body, const Oracle& oracle, const Reset& reset) {
    ExploreResult R; auto t0 = std::chrono::steady_clock::now(); auto elapsed = [&]() { return std::chrono::duration<double>(std::chrono::steady_clock::now() - t0).count(); };
    mkdir(cfg.tmpdir.c_str(), 0755);
    Visited visited; std::vector<Work> stack; { Work w; w.dev = 0; w.retry = false; stack.push_back(w); }
    struct Slot { pid_t pid; Work w; std::string path; }; std::vector<Slot> slots;
    bool stop_new = false; std::set<std::string> found_keys;
    while (!stack.empty() || !slots.empty()) {
        while (!stop_new && !stack.empty() && (int)slots.size() < cfg.workers) {
            Slot s; s.w = stack.back(); stack.pop_back(); s.path = cfg.tmpdir + "/" + cfg.label + "." + std::to_string(getpid()) + "." + std::to_string(R.executions + slots.size()) + ".res";
            // a path per execution; removed after parsing
            fflush(0); pid_t p = fork();
            if (p == 0) { child_run(cfg, body, oracle, reset, s.w.prefix, s.w.dev, &visited, s.path, s.w.retry ? cfg.child_timeout_s * 5 : cfg.child_timeout_s); _exit(0); }
            if (p < 0) { R.engine_error = "fork failed"; stop_new = true; break; }
            s.pid = p; slots.push_back(s);
        }
        if (slots.empty()) break;
        int st = 0; pid_t done = waitpid(-1, &st, 0); if (done < 0) { R.engine_error = "waitpid failed"; break; }
        size_t si = 0; for (; si < slots.size(); ++si) if (slots[si].pid == done) break; if (si == slots.size()) continue;
        Slot s = slots[si]; slots.erase(slots.begin() + si); R.executions++;
        RunRec rr; bool crashed = false; std::string crash;
        if (WIFSIGNALED(st)) { crashed = true; int sg = WTERMSIG(st);
            if ((sg == SIGALRM || sg == SIGPROF) && !s.w.retry) { Work w = s.w; w.retry = true; stack.push_back(w); R.executions--; unlink(s.path.c_str()); continue; }   // confirm with a 10x limit before calling it a hang
            crash = (sg == SIGALRM || sg == SIGPROF) ? "a rank does not return and makes no MPI call (watchdog, confirmed with a 5x limit)" : "execution crashed with signal " + std::to_string(sg); }
        else { rr = parse(s.path); if (!rr.ok_file) { crashed = true; crash = "child exited with status " + std::to_string(WEXITSTATUS(st)) + " without a result"; } }
        unlink(s.path.c_str());
        // the first counterexample ends the exploration of this configuration (executions already in flight are still collected)
        auto add_found = [&](int kind, const std::string& detail, const std::vector<int>& choices, int dev) { std::string k = std::to_string(kind) + ":" + detail.substr(0, 120); if (found_keys.insert(k).second && R.found.size() < 4) { Found f; f.kind = kind; f.detail = detail; f.choices = choices; f.deviations = dev; R.found.push_back(f); } if (cfg.stop_at_first) { stop_new = true; if (!stack.empty()) R.exhaustive = false; stack.clear(); } };
        if (crashed) { add_found(Outcome::EXCEPTION, crash, s.w.prefix, s.w.dev); continue; }
        std::vector<int> choices; for (auto& p : rr.pts) if (p.chosen >= 0) choices.push_back(p.chosen);
        R.max_points = std::max<long>(R.max_points, rr.pts.size());
        if (rr.kind == Outcome::DIVERGED) { R.engine_error = "replay divergence: " + rr.detail; stop_new = true; continue; }
        if (rr.kind == Outcome::CUT) R.cut_runs++;
        else if (rr.kind != Outcome::OK) { int dev = s.w.dev; add_found(rr.kind, rr.detail, choices, dev); R.outcomes["!" + std::to_string(rr.kind)]++; }
        else { if (!rr.violation.empty()) add_found(Outcome::VIOLATION, rr.violation, choices, s.w.dev); R.outcomes[rr.signature]++; }
        // expand the new states of this run
        int dev = s.w.dev;
        for (size_t i = 0; i < rr.pts.size(); ++i) {
            const Point& p = rr.pts[i];
            if (i >= s.w.prefix.size()) {
                Key k = { p.k1, p.k2 }; auto it = visited.find(k);
                if (it != visited.end() && it->second <= dev) break;
                bool fresh = (it == visited.end()); visited[k] = dev; if (fresh) R.states++;
                if (p.chosen < 0) break;
                R.transitions += p.enabled.size();
                for (size_t j = 0; j < p.enabled.size(); ++j) { int alt = p.enabled[j]; if (alt == p.chosen) continue; int ndev = dev + (alt != rr.defaults[i] ? 1 : 0); if (cfg.bound >= 0 && ndev > cfg.bound) { R.exhaustive = R.exhaustive; continue; }
                    Work w; w.prefix.assign(choices.begin(), choices.begin() + i); w.prefix.push_back(alt); w.dev = ndev; w.retry = false; stack.push_back(w); }
            }
            if (p.chosen >= 0 && i < rr.defaults.size() && i >= s.w.prefix.size() && p.chosen != rr.defaults[i]) ++dev;
        }
        if (R.executions >= cfg.max_exec || elapsed() > cfg.deadline_s) { if (!stack.empty()) R.exhaustive = false; stop_new = true; stack.clear(); }
    }
    R.bound_completed = R.exhaustive ? cfg.bound : -2; R.wall_s = elapsed();
    return R;
}

int replay_schedule(const ExploreCfg& cfg, const RankMain& body, const Oracle& oracle, const Reset& reset, const std::vector<int>& choices, std::string* text) {
    mkdir(cfg.tmpdir.c_str(), 0755); std::string path = cfg.tmpdir + "/replay." + std::to_string(getpid()) + ".res";
    fflush(0); pid_t p = fork(); if (p == 0) { child_run(cfg, body, oracle, reset, choices, 0, 0, path, cfg.child_timeout_s * 5); _exit(0); }
    int st = 0; waitpid(p, &st, 0); std::ostringstream o;
    if (WIFSIGNALED(st)) { o << "crashed/hung with signal " << WTERMSIG(st); if (text) *text = o.str(); return Outcome::EXCEPTION; }
    RunRec rr = parse(path); unlink(path.c_str());
    int kind = rr.kind; if (kind == Outcome::OK && !rr.violation.empty()) kind = Outcome::VIOLATION;
    o << "kind=" << kind << " detail=" << rr.detail << " violation=" << rr.violation << " signature=" << rr.signature << " points=" << rr.pts.size();
    uint64_t h = 0; for (auto& q : rr.pts) h = h * 1000003ull + q.k1 + q.chosen; o << " trace_hash=" << std::hex << h;
    if (text) *text = o.str(); return kind;
}

} // namespace vmpi
