// stateless explorer with state hashing over vmpi executions.  One forked child per execution (clean teardown of blocked
// rank threads, isolation of crashes, watchdog against ranks that spin without any MPI call).     DESIGN.md section 6.2
#pragma once
#include "vmpi.hpp"
#include <set>
#include <map>

namespace vmpi {

struct Found { int kind; std::string detail; std::vector<int> choices; int deviations; };

struct ExploreCfg {
    Config mpi; int workers; long max_exec; double deadline_s; int bound;      // bound < 0: unbounded (all interleavings)
    double child_timeout_s; std::string tmpdir; std::string label; bool stop_at_first;
    ExploreCfg() : workers(4), max_exec(2000000), deadline_s(1e9), bound(-1), child_timeout_s(20), stop_at_first(true) {}
};
struct ExploreResult {
    long executions, states, transitions, cut_runs, max_points; bool exhaustive; int bound_completed; std::vector<Found> found; std::map<std::string,long> outcomes; std::string engine_error; double wall_s;
    ExploreResult() : executions(0), states(0), transitions(0), cut_runs(0), max_points(0), exhaustive(true), bound_completed(-1), wall_s(0) {}
};

// body: per-rank program.  oracle: evaluated (in the child) after an execution that ran to completion; returns a violation text
// ("" = fine) and fills signature (a canonical description of the observable outcome, for counting distinct outcomes).
typedef std::function<std::string(const Outcome&, std::string& signature)> Oracle;
typedef std::function<void()> Reset;      // called in the child before the execution (reset harness globals)

ExploreResult explore(const ExploreCfg& cfg, const RankMain& body, const Oracle& oracle, const Reset& reset);

// replay one recorded schedule in-process (forked once); prints observations; returns outcome kind
int replay_schedule(const ExploreCfg& cfg, const RankMain& body, const Oracle& oracle, const Reset& reset, const std::vector<int>& choices, std::string* text);

} // namespace vmpi
