// vmpi runtime: virtual MPI + virtual OpenMP team + baton scheduler.  See vmpi.hpp and DESIGN.md section 6.
#include "vmpi.hpp"
#include <mpi.h>
#include <pthread.h>
#include <cstring>
#include <cstdio>
#include <cstdlib>
#include <map>
#include <deque>
#include <memory>
#include <sstream>
#include <stdexcept>
#include <algorithm>
#include <set>

// ---- predefined handles: the objects Open MPI's mpi.h refers to; used purely as opaque keys -----------------------------
extern "C" {
struct ompi_predefined_communicator_t { char pad[64]; };
struct ompi_predefined_datatype_t { char pad[64]; };
struct ompi_predefined_request_t { char pad[64]; };
struct ompi_predefined_errhandler_t { char pad[64]; };
struct ompi_predefined_group_t { char pad[64]; };
struct ompi_predefined_info_t { char pad[64]; };
struct ompi_predefined_op_t { char pad[64]; };
struct ompi_predefined_message_t { char pad[64]; };
struct ompi_predefined_communicator_t ompi_mpi_comm_world, ompi_mpi_comm_null, ompi_mpi_comm_self;
struct ompi_predefined_datatype_t ompi_mpi_datatype_null, ompi_mpi_packed, ompi_mpi_byte, ompi_mpi_double, ompi_mpi_int, ompi_mpi_unsigned_long,
    ompi_mpi_char, ompi_mpi_signed_char, ompi_mpi_unsigned_char, ompi_mpi_short, ompi_mpi_unsigned_short, ompi_mpi_unsigned, ompi_mpi_long,
    ompi_mpi_long_long_int, ompi_mpi_unsigned_long_long, ompi_mpi_float, ompi_mpi_long_double, ompi_mpi_wchar, ompi_mpi_cxx_bool, ompi_mpi_c_bool,
    ompi_mpi_cxx_cplex, ompi_mpi_cxx_dblcplex, ompi_mpi_cxx_ldblcplex, ompi_mpi_float_int, ompi_mpi_double_int, ompi_mpi_long_int, ompi_mpi_2int, ompi_mpi_short_int, ompi_mpi_longdbl_int,
    ompi_mpi_int8_t, ompi_mpi_uint8_t, ompi_mpi_int16_t, ompi_mpi_uint16_t, ompi_mpi_int32_t, ompi_mpi_uint32_t, ompi_mpi_int64_t, ompi_mpi_uint64_t, ompi_mpi_c_float_complex, ompi_mpi_c_double_complex, ompi_mpi_c_long_double_complex;
struct ompi_predefined_request_t ompi_request_null;
struct ompi_predefined_errhandler_t ompi_mpi_errors_return, ompi_mpi_errors_are_fatal, ompi_mpi_errhandler_null;
struct ompi_predefined_group_t ompi_mpi_group_empty, ompi_mpi_group_null;
struct ompi_predefined_info_t ompi_mpi_info_null;
struct ompi_predefined_message_t ompi_message_null, ompi_message_no_proc;
struct ompi_predefined_op_t ompi_mpi_op_null, ompi_mpi_op_sum, ompi_mpi_op_max, ompi_mpi_op_min, ompi_mpi_op_prod, ompi_mpi_op_land, ompi_mpi_op_lor, ompi_mpi_op_band, ompi_mpi_op_bor, ompi_mpi_op_lxor, ompi_mpi_op_bxor, ompi_mpi_op_maxloc, ompi_mpi_op_minloc, ompi_mpi_op_replace, ompi_mpi_op_no_op;
}

namespace vmpi {

uint64_t hash_bytes(const void* p, size_t n, uint64_t seed) { const unsigned char* b = (const unsigned char*)p; uint64_t h = seed; for (size_t i = 0; i < n; ++i) { h ^= b[i]; h *= 1099511628211ull; } return h; }
static inline uint64_t mix(uint64_t h, uint64_t v) { h ^= v + 0x9e3779b97f4a7c15ull + (h << 6) + (h >> 2); h *= 0xff51afd7ed558ccdull; h ^= h >> 33; return h; }

struct AbortExecution { };   // thrown in a rank thread to unwind it when the execution is stopped

enum OpKind { OP_START = 1, OP_YIELD, OP_SEND, OP_SENDWAIT, OP_TEST, OP_WAIT, OP_PROBE, OP_IPROBE, OP_COLL, OP_NONE };

struct VComm { int id; std::vector<int> ranks; std::vector<long> coll_seq; VComm() : id(0) {} int rank_of_world(int w) const { for (size_t i = 0; i < ranks.size(); ++i) if (ranks[i] == w) return (int)i; return -1; } };
struct VReq { int id; int owner; bool is_recv; VComm* comm; int src, tag; void* buf; long cap; bool complete, cancelled; MPI_Status st; };
struct VMsg { long id; VComm* comm; int src, dst, tag; std::vector<char> data; bool sync; bool consumed; bool delivered; int sender_world; };
struct Coll { int kind; int root; long bytes; int arrived; std::vector<char> present; std::vector<char> data; std::vector<int> colors, keys; std::vector<VComm*> result; std::vector<std::vector<char> > contrib; bool built; int left; Coll() : kind(0), root(-1), bytes(-1), arrived(0), built(false), left(0) {} };
enum { C_BARRIER = 1, C_BCAST, C_SPLIT, C_DUP, C_ALLREDUCE, C_REDUCE, C_GATHER };

struct Pending { OpKind kind; VComm* comm; int peer, tag; VReq* req; VMsg* msg; long coll; const char* what; long arg; Pending() : kind(OP_NONE), comm(0), peer(0), tag(0), req(0), msg(0), coll(0), what(""), arg(0) {} };

struct Rank { pthread_t th; int state; /*0 not started 1 at point 2 running 3 finished*/ Pending pend; uint64_t h1, h2; std::string error; int nreq; long npoints; };

struct Global {
    Config cfg; std::vector<Rank> R; pthread_mutex_t mu; pthread_cond_t cv; int turn; bool aborting; const RankMain* body;
    VComm world; std::vector<std::unique_ptr<VComm> > comms; std::vector<std::unique_ptr<VReq> > reqs; std::vector<std::unique_ptr<VMsg> > msgs;
    std::map<std::pair<int,int>, std::deque<VMsg*> > unexpected;     // (comm id, dst comm rank) -> arrival order
    std::map<std::pair<int,int>, std::deque<VReq*> > posted;         // (comm id, dst comm rank) -> post order
    std::map<std::pair<int,long>, Coll> colls;                        // (comm id, sequence number)
    std::set<std::pair<int,long> > open_colls; std::deque<VMsg*> live_msgs; std::map<long, std::deque<VMsg*> > inflight;   // channel -> sent, not yet delivered (FIFO)
    long next_msg; int next_comm; std::string violation; int violation_kind; int tag_ub;
} *G = 0;

static thread_local int tl_rank = -1;
static thread_local int tl_omp_tid = 0, tl_omp_nth = 1;

int my_rank() { return tl_rank; }

static void fold(Rank& r, uint64_t v) { r.h1 = mix(r.h1, v); r.h2 = mix(r.h2 ^ 0x5bd1e995ull, v * 0x9e3779b97f4a7c15ull + 7); }
void note(uint64_t h) { if (G && tl_rank >= 0) fold(G->R[tl_rank], mix(0x6e6f7465, h)); }
void checkpoint(uint64_t d) { if (G && tl_rank >= 0) { Rank& r = G->R[tl_rank]; r.h1 = mix(0x636b7074, d); r.h2 = mix(0x636b7075, d * 31 + 1); r.nreq = 0; } }
void fail(const std::string& what) { if (!G) return; pthread_mutex_lock(&G->mu); if (G->violation.empty()) { G->violation = what; G->violation_kind = Outcome::VIOLATION; } pthread_mutex_unlock(&G->mu); }

static VComm* comm_of(MPI_Comm c) { if (c == MPI_COMM_WORLD) return &G->world; if (c == MPI_COMM_NULL) return 0; return (VComm*)c; }
static long type_size(MPI_Datatype t) {
    if (t == MPI_INT || t == MPI_UNSIGNED || t == MPI_FLOAT || t == MPI_INT32_T || t == MPI_UINT32_T) return 4;
    if (t == MPI_DOUBLE || t == MPI_LONG || t == MPI_UNSIGNED_LONG || t == MPI_LONG_LONG_INT || t == MPI_UNSIGNED_LONG_LONG || t == MPI_INT64_T || t == MPI_UINT64_T || t == MPI_CXX_FLOAT_COMPLEX || t == MPI_C_FLOAT_COMPLEX) return 8;
    if (t == MPI_BYTE || t == MPI_PACKED || t == MPI_CHAR || t == MPI_SIGNED_CHAR || t == MPI_UNSIGNED_CHAR || t == MPI_CXX_BOOL || t == MPI_C_BOOL || t == MPI_INT8_T || t == MPI_UINT8_T) return 1;
    if (t == MPI_SHORT || t == MPI_UNSIGNED_SHORT || t == MPI_INT16_T || t == MPI_UINT16_T) return 2;
    if (t == MPI_CXX_DOUBLE_COMPLEX || t == MPI_C_DOUBLE_COMPLEX || t == MPI_LONG_DOUBLE) return 16;
    if (t == MPI_WCHAR) return 4;
    fprintf(stderr, "vmpi: unknown datatype %p\n", (void*)t); abort();
}

// ---- the baton ---------------------------------------------------------------------------------------------------------
static void sched_point(Pending p) {      // called by a rank thread: publish, hand the baton to the scheduler, wait to be granted
    Rank& me = G->R[tl_rank];
    pthread_mutex_lock(&G->mu);
    me.pend = p; me.state = 1; me.npoints++; G->turn = -1; pthread_cond_broadcast(&G->cv);
    while (G->turn != tl_rank && !G->aborting) pthread_cond_wait(&G->cv, &G->mu);
    bool ab = G->aborting; me.state = 2;
    if (!ab && p.kind == OP_COLL) { Coll& cc = G->colls[std::make_pair(p.comm->id, p.coll)]; if (++cc.left >= (int)p.comm->ranks.size()) G->open_colls.erase(std::make_pair(p.comm->id, p.coll)); }
    pthread_mutex_unlock(&G->mu);
    if (ab) throw AbortExecution();
}
void yield_point(const char* what, long arg) { Pending p; p.kind = OP_YIELD; p.what = what; p.arg = arg; sched_point(p); fold(G->R[tl_rank], mix(0x7969656c, (uint64_t)arg)); }

// ---- matching ------------------------------------------------------------------------------------------------------------
static bool match(const VReq* r, const VMsg* m) { return r->comm == m->comm && (r->src == MPI_ANY_SOURCE || r->src == m->src) && (r->tag == MPI_ANY_TAG || r->tag == m->tag); }
static void complete_recv(VReq* r, VMsg* m) {
    long n = std::min<long>(r->cap, (long)m->data.size()); if (n > 0 && r->buf) memcpy(r->buf, m->data.data(), n);
    r->complete = true; r->st.MPI_SOURCE = m->src; r->st.MPI_TAG = m->tag; r->st.MPI_ERROR = MPI_SUCCESS; r->st._cancelled = 0; r->st._ucount = m->data.size(); m->consumed = true;
}
static void deposit(VMsg* m) {       // a message becomes visible at its destination
    auto& pq = G->posted[std::make_pair(m->comm->id, m->dst)];
    for (auto it = pq.begin(); it != pq.end(); ++it) if (match(*it, m)) { VReq* r = *it; pq.erase(it); complete_recv(r, m); return; }
    G->unexpected[std::make_pair(m->comm->id, m->dst)].push_back(m);
}
static VMsg* find_unexpected(VComm* c, int dst, int src, int tag, bool remove) {
    auto& uq = G->unexpected[std::make_pair(c->id, dst)];
    for (auto it = uq.begin(); it != uq.end(); ++it) { VMsg* m = *it; if ((src == MPI_ANY_SOURCE || src == m->src) && (tag == MPI_ANY_TAG || tag == m->tag)) { if (remove) uq.erase(it); return m; } }
    return 0;
}
static VReq* new_req(bool is_recv, VComm* c, int src, int tag, void* buf, long cap) {
    Rank& me = G->R[tl_rank]; VReq* r = new VReq(); r->id = me.nreq++; r->owner = tl_rank; r->is_recv = is_recv; r->comm = c; r->src = src; r->tag = tag; r->buf = buf; r->cap = cap; r->complete = false; r->cancelled = false; memset(&r->st, 0, sizeof(r->st));
    G->reqs.push_back(std::unique_ptr<VReq>(r)); return r;
}
static void post_recv(VReq* r) {
    int me = r->comm->rank_of_world(tl_rank);
    VMsg* m = find_unexpected(r->comm, me, r->src, r->tag, true);
    if (m) complete_recv(r, m); else G->posted[std::make_pair(r->comm->id, me)].push_back(r);
}
static void do_send(VComm* c, const void* buf, long bytes, int dest, int tag, bool sync) {
    if (dest == MPI_PROC_NULL) return;
    Pending p; p.kind = OP_SEND; p.comm = c; p.peer = dest; p.tag = tag; sched_point(p);
    VMsg* m = new VMsg(); m->id = G->next_msg++; m->comm = c; m->src = c->rank_of_world(tl_rank); m->dst = dest; m->tag = tag; m->data.assign((const char*)buf, (const char*)buf + bytes); m->sync = sync; m->consumed = false; m->delivered = !G->cfg.delayed; m->sender_world = tl_rank;
    G->msgs.push_back(std::unique_ptr<VMsg>(m)); G->live_msgs.push_back(m);
    fold(G->R[tl_rank], mix(mix(0x73656e64, (uint64_t)dest * 131 + (uint64_t)(tag + 7)), hash_bytes(buf, bytes) ^ (uint64_t)c->id));
    if (G->cfg.delayed) G->inflight[((long)c->id * 64 + m->src) * 64 + m->dst].push_back(m); else deposit(m);
    if (sync) { Pending q; q.kind = OP_SENDWAIT; q.comm = c; q.peer = dest; q.tag = tag; q.msg = m; sched_point(q); fold(G->R[tl_rank], 0x73796e63); }
}
static void finish_req(VReq* r, MPI_Status* st) { if (st != MPI_STATUS_IGNORE && st) { *st = r->st; } fold(G->R[tl_rank], mix(mix(0x646f6e65, (uint64_t)r->id), mix((uint64_t)(r->st.MPI_SOURCE + 3) * 1000003ull + (uint64_t)(r->st.MPI_TAG + 5), r->is_recv && r->buf && !r->cancelled ? hash_bytes(r->buf, std::min<long>(r->cap, (long)r->st._ucount)) : 0))); }

// ---- collectives -----------------------------------------------------------------------------------------------------------
static Coll& coll_arrive(VComm* c, int kind, int root, long bytes, long& seq) {
    int me = c->rank_of_world(tl_rank); seq = c->coll_seq[me]++;
    Coll& k = G->colls[std::make_pair(c->id, seq)];
    if (k.arrived == 0) { G->open_colls.insert(std::make_pair(c->id, seq)); k.kind = kind; k.root = root; k.bytes = bytes; k.present.assign(c->ranks.size(), 0); k.colors.assign(c->ranks.size(), 0); k.keys.assign(c->ranks.size(), 0); k.contrib.resize(c->ranks.size()); }
    else if (k.kind != kind || k.root != root || (kind == C_BCAST && k.bytes != bytes)) {
        pthread_mutex_lock(&G->mu); if (G->violation.empty()) { std::ostringstream o; o << "collective mismatch on communicator " << c->id << " at collective #" << seq << ": rank " << tl_rank << " calls kind " << kind << " root " << root << " bytes " << bytes << " while another rank is in kind " << k.kind << " root " << k.root << " bytes " << k.bytes; G->violation = o.str(); G->violation_kind = Outcome::MISMATCH; } pthread_mutex_unlock(&G->mu);
    }
    k.present[me] = 1; k.arrived++; return k;
}
static bool coll_enabled(const Pending& p, int world_rank) {
    Coll& k = G->colls[std::make_pair(p.comm->id, p.coll)]; int n = p.comm->ranks.size(); int me = p.comm->rank_of_world(world_rank);
    switch (k.kind) { case C_BCAST: return me == k.root || k.present[k.root]; case C_REDUCE: case C_GATHER: return me != k.root || k.arrived == n; default: return k.arrived == n; }
}

// ---- the scheduler ---------------------------------------------------------------------------------------------------------
static bool op_enabled(int r, bool& productive) {
    const Pending& p = G->R[r].pend; productive = true;
    switch (p.kind) {
    case OP_START: case OP_YIELD: case OP_SEND: return true;
    case OP_SENDWAIT: return p.msg->consumed;
    case OP_TEST: productive = p.req->complete; return true;
    case OP_WAIT: return p.req->complete;
    case OP_PROBE: return find_unexpected(p.comm, p.comm->rank_of_world(r), p.peer, p.tag, false) != 0;
    case OP_IPROBE: productive = find_unexpected(p.comm, p.comm->rank_of_world(r), p.peer, p.tag, false) != 0; return true;
    case OP_COLL: return coll_enabled(p, r);
    default: return false;
    }
}
static uint64_t pend_sig(const Pending& p) {
    uint64_t s = mix(p.kind, (uint64_t)(p.comm ? p.comm->id : -1) * 977 + (uint64_t)(p.peer + 11) * 31 + (uint64_t)(p.tag + 13));
    if (p.req) s = mix(s, p.req->id + 1000); if (p.kind == OP_COLL) s = mix(s, p.coll + 77); if (p.kind == OP_YIELD) s = mix(s, p.arg + 5); return s;
}
static std::string pend_str(int r) {
    const Rank& k = G->R[r]; if (k.state == 3) return k.error.empty() ? "returned" : "threw: " + k.error; const Pending& p = k.pend; std::ostringstream o;
    static const char* nm[] = { "?", "start", "yield", "send", "send-wait(unmatched synchronous send)", "test", "wait", "probe", "iprobe", "collective", "none" };
    o << nm[p.kind]; if (p.comm) o << " comm" << p.comm->id; if (p.kind == OP_SEND || p.kind == OP_SENDWAIT) o << " to " << p.peer << " tag " << p.tag;
    if (p.req) o << " req#" << p.req->id << (p.req->is_recv ? " recv from " : " send to ") << p.req->src << " tag " << p.req->tag << (p.req->complete ? " (complete)" : " (incomplete)");
    if (p.kind == OP_PROBE || p.kind == OP_IPROBE) o << " from " << p.peer << " tag " << p.tag;
    if (p.kind == OP_COLL) { Coll& c = G->colls[std::make_pair(p.comm->id, p.coll)]; static const char* cn[] = { "?", "barrier", "bcast", "split", "dup", "allreduce", "reduce", "gather" }; o << " #" << p.coll << " " << cn[c.kind] << " root " << c.root << " arrived " << c.arrived << "/" << p.comm->ranks.size(); }
    return o.str();
}

static void* rank_thread(void* arg) {
    int r = (int)(long)arg; tl_rank = r; tl_omp_tid = 0; tl_omp_nth = 1;
    try { Pending p; p.kind = OP_START; sched_point(p); (*G->body)(r); }
    catch (AbortExecution&) { }
    catch (std::exception& e) { G->R[r].error = e.what()[0] ? e.what() : "exception"; }
    catch (...) { G->R[r].error = "unknown exception"; }
    pthread_mutex_lock(&G->mu); G->R[r].state = 3; G->turn = -1; pthread_cond_broadcast(&G->cv); pthread_mutex_unlock(&G->mu);
    return 0;
}

Outcome run(const Config& cfg, const RankMain& body, const Decider& decide) {
    Outcome out; Global* gp = new Global(); Global& g = *gp; G = gp; g.cfg = cfg; g.body = &body; g.turn = -2; g.aborting = false; g.next_msg = 1; g.next_comm = 1; g.violation_kind = 0; g.tag_ub = 1 << 22;
    pthread_mutex_init(&g.mu, 0); pthread_cond_init(&g.cv, 0);
    g.R.resize(cfg.P); g.world.id = 0; for (int r = 0; r < cfg.P; ++r) { g.world.ranks.push_back(r); g.R[r].state = 0; g.R[r].h1 = 1469598103934665603ull + r; g.R[r].h2 = 88172645463325252ull + 7 * r; g.R[r].nreq = 0; g.R[r].npoints = 0; }
    g.world.coll_seq.assign(cfg.P, 0);
    pthread_attr_t at; pthread_attr_init(&at); pthread_attr_setstacksize(&at, 16u << 20);
    for (int r = 0; r < cfg.P; ++r) pthread_create(&g.R[r].th, &at, rank_thread, (void*)(long)r);
    long steps = 0; bool trace = getenv("VMPI_TRACE") != 0; std::vector<std::set<uint64_t> > spun(cfg.P);
    for (;;) {
        pthread_mutex_lock(&g.mu);
        for (;;) { bool all = (g.turn < 0); if (all) for (int r = 0; r < cfg.P; ++r) if (g.R[r].state != 1 && g.R[r].state != 3) all = false; if (all) break; pthread_cond_wait(&g.cv, &g.mu); }
        pthread_mutex_unlock(&g.mu);
        if (!g.violation.empty()) { out.kind = (Outcome::Kind)g.violation_kind; out.detail = g.violation; break; }
        std::vector<int> en; std::vector<char> prod; int live = 0; bool any_error = false;
        for (int r = 0; r < cfg.P; ++r) { if (g.R[r].state == 3) { if (!g.R[r].error.empty()) any_error = true; continue; } ++live; bool p; if (op_enabled(r, p)) {
            // a rank whose poll cannot succeed and that has already been through this very poll since anything last changed has gone
            // once round its polling cycle without effect: running it again changes nothing (it is "parked")
            if (!p && spun[r].count(pend_sig(g.R[r].pend))) continue;
            en.push_back(r); prod.push_back(p); } }
        if (live == 0) { out.kind = any_error ? Outcome::EXCEPTION : Outcome::OK; break; }
        for (auto& ch : g.inflight) if (!ch.second.empty()) { en.push_back(cfg.P + (int)ch.first); prod.push_back(1); }      // one 'deliver' action per non-empty channel
        if (en.empty()) {     // nobody can make progress: blocked ranks, and pollers that completed a full cycle in vain
            out.kind = any_error ? Outcome::EXCEPTION : Outcome::DEADLOCK; std::ostringstream o; o << (any_error ? "a rank threw and the others cannot finish: " : "no rank can make progress: ");
            for (int r = 0; r < cfg.P; ++r) o << "[rank " << r << ": " << pend_str(r) << "] "; out.detail = o.str(); break; }
        if (++steps > cfg.horizon) { out.kind = Outcome::HORIZON; out.detail = "step horizon exceeded"; break; }
        uint64_t k1 = 0x1234567, k2 = 0x89abcdef;
        for (int r = 0; r < cfg.P; ++r) { uint64_t s = g.R[r].state == 3 ? mix(0xdead, hash_bytes(g.R[r].error.data(), g.R[r].error.size())) : pend_sig(g.R[r].pend); k1 = mix(mix(k1, g.R[r].h1), s); k2 = mix(mix(k2, g.R[r].h2), s * 3 + 1); }
        // what is in flight: unconsumed point-to-point messages and the payload of collectives some member has not left yet
        while (!g.live_msgs.empty() && g.live_msgs.front()->consumed) g.live_msgs.pop_front();
        for (VMsg* m : g.live_msgs) if (!m->consumed) { uint64_t h = mix(mix((uint64_t)m->comm->id * 1009 + m->src * 31 + m->dst + (m->delivered ? 0 : 7777), (uint64_t)(m->tag + 3)), hash_bytes(m->data.data(), m->data.size())); k1 = mix(k1, h); k2 = mix(k2, h * 5 + 3); }
        for (auto& ck : g.open_colls) { const Coll& c = g.colls[ck];
            uint64_t h = mix((uint64_t)ck.first * 7919 + ck.second, hash_bytes(c.data.data(), c.data.size())); for (auto& cb : c.contrib) h = mix(h, hash_bytes(cb.data(), cb.size())); for (size_t i = 0; i < c.present.size(); ++i) h = mix(h, c.present[i] * 2 + 1); k1 = mix(k1, h); k2 = mix(k2, h * 7 + 1); }
        Point pt; pt.k1 = k1; pt.k2 = k2; pt.enabled = en; pt.productive = prod;
        int ch = decide(out.points.size(), en, prod, k1, k2);
        if (ch == -1) { pt.chosen = -1; out.points.push_back(pt); out.kind = Outcome::CUT; break; }
        if (std::find(en.begin(), en.end(), ch) == en.end()) { pt.chosen = ch; out.points.push_back(pt); out.kind = Outcome::DIVERGED; out.detail = "replayed choice is not enabled"; break; }
        pt.chosen = ch; out.points.push_back(pt);
        if (trace && ch < cfg.P) { fprintf(stderr, "  step %ld: run rank %d : %s   |", steps, ch, pend_str(ch).c_str()); for (size_t j = 0; j < en.size(); ++j) if (en[j] != ch && en[j] < cfg.P) fprintf(stderr, " [%d%s: %s]", en[j], prod[j] ? "" : " poll-would-fail", pend_str(en[j]).c_str()); fprintf(stderr, "\n"); }
        if (ch >= cfg.P) {       // deliver the oldest message of that channel; no rank runs
            std::deque<VMsg*>& q = g.inflight[ch - cfg.P]; VMsg* m = q.front(); q.pop_front(); m->delivered = true; deposit(m); for (auto& sp : spun) sp.clear();
            if (trace) fprintf(stderr, "  step %ld: deliver message %d->%d tag %d on comm %d\n", steps, m->src, m->dst, m->tag, m->comm->id);
            continue; }
        { bool p = true; for (size_t j = 0; j < en.size(); ++j) if (en[j] == ch) p = prod[j]; if (p) for (auto& q : spun) q.clear(); else spun[ch].insert(pend_sig(g.R[ch].pend)); }
        pthread_mutex_lock(&g.mu); g.turn = ch; pthread_cond_broadcast(&g.cv); pthread_mutex_unlock(&g.mu);
    }
    if (cfg.detach_on_stop && out.kind != Outcome::OK && out.kind != Outcome::EXCEPTION) {
        for (int r = 0; r < cfg.P; ++r) out.rank_error.push_back(g.R[r].error);
        return out;      // rank threads stay blocked on the (leaked) global state; the caller exits the process
    }
    // stop whatever is still waiting
    pthread_mutex_lock(&g.mu); g.aborting = true; pthread_cond_broadcast(&g.cv); pthread_mutex_unlock(&g.mu);
    for (int r = 0; r < cfg.P; ++r) pthread_join(g.R[r].th, 0);
    for (int r = 0; r < cfg.P; ++r) out.rank_error.push_back(g.R[r].error);
    if (out.kind == Outcome::EXCEPTION && out.detail.empty()) { std::ostringstream o; for (int r = 0; r < cfg.P; ++r) if (!g.R[r].error.empty()) o << "[rank " << r << " threw: " << g.R[r].error << "] "; out.detail = o.str(); }
    if (out.kind == Outcome::OK && !g.violation.empty()) { out.kind = (Outcome::Kind)g.violation_kind; out.detail = g.violation; }
    long left = 0; for (auto& kv : g.unexpected) left += kv.second.size(); for (auto& kv : g.inflight) left += kv.second.size(); out.leftover_messages = left;
    G = 0; pthread_mutex_destroy(&g.mu); pthread_cond_destroy(&g.cv); delete gp;
    return out;
}

} // namespace vmpi

// =====================================================================================================================
//  MPI entry points
// =====================================================================================================================
using namespace vmpi;
#define NOTIMPL(name) extern "C" int name(...) { fprintf(stderr, "vmpi: " #name " is not modelled\n"); abort(); }

extern "C" {

int MPI_Init(int*, char***) { return MPI_SUCCESS; }
int MPI_Init_thread(int*, char***, int req, int* prov) { if (prov) *prov = req; return MPI_SUCCESS; }
int MPI_Initialized(int* f) { *f = 1; return MPI_SUCCESS; }
int MPI_Finalized(int* f) { *f = 0; return MPI_SUCCESS; }
int MPI_Finalize(void) { return MPI_SUCCESS; }
int MPI_Query_thread(int* p) { *p = MPI_THREAD_SINGLE; return MPI_SUCCESS; }
int MPI_Is_thread_main(int* f) { *f = 1; return MPI_SUCCESS; }
int MPI_Abort(MPI_Comm, int code) { fail("MPI_Abort called with code " + std::to_string(code)); throw AbortExecution(); }
int MPI_Error_string(int, char* s, int* n) { strcpy(s, "vmpi error"); *n = strlen(s); return MPI_SUCCESS; }
int MPI_Get_processor_name(char* s, int* n) { strcpy(s, "vmpi"); *n = 4; return MPI_SUCCESS; }
int MPI_Get_version(int* a, int* b) { *a = 3; *b = 1; return MPI_SUCCESS; }
int MPI_Get_library_version(char* s, int* n) { strcpy(s, "vmpi"); *n = 4; return MPI_SUCCESS; }
double MPI_Wtime(void) { return 0; }
double MPI_Wtick(void) { return 1e-6; }

int MPI_Comm_rank(MPI_Comm c, int* r) { *r = comm_of(c)->rank_of_world(tl_rank); return MPI_SUCCESS; }
int MPI_Comm_size(MPI_Comm c, int* n) { *n = comm_of(c)->ranks.size(); return MPI_SUCCESS; }
int MPI_Comm_test_inter(MPI_Comm, int* f) { *f = 0; return MPI_SUCCESS; }
int MPI_Comm_compare(MPI_Comm a, MPI_Comm b, int* res) { *res = (comm_of(a) == comm_of(b)) ? MPI_IDENT : (comm_of(a) && comm_of(b) && comm_of(a)->ranks == comm_of(b)->ranks ? MPI_CONGRUENT : MPI_UNEQUAL); return MPI_SUCCESS; }
int MPI_Comm_set_errhandler(MPI_Comm, MPI_Errhandler) { return MPI_SUCCESS; }
int MPI_Comm_get_attr(MPI_Comm, int key, void* val, int* flag) { if (key == MPI_TAG_UB) { *(int**)val = &G->tag_ub; *flag = 1; } else *flag = 0; return MPI_SUCCESS; }
int MPI_Comm_free(MPI_Comm* c) { *c = MPI_COMM_NULL; return MPI_SUCCESS; }
int MPI_Topo_test(MPI_Comm, int* s) { *s = MPI_UNDEFINED; return MPI_SUCCESS; }

static int split_like(MPI_Comm c, int kind, int color, int key, MPI_Comm* out) {
    VComm* vc = comm_of(c); long seq; Coll& k = coll_arrive(vc, kind, -1, 0, seq); int me = vc->rank_of_world(tl_rank); k.colors[me] = color; k.keys[me] = key;
    Pending p; p.kind = OP_COLL; p.comm = vc; p.coll = seq; sched_point(p);
    Coll& kk = G->colls[std::make_pair(vc->id, seq)];
    if (!kk.built) { kk.built = true; kk.result.assign(vc->ranks.size(), 0); std::map<int, std::vector<std::pair<std::pair<int,int>,int> > > by;
        for (size_t i = 0; i < vc->ranks.size(); ++i) by[kk.colors[i]].push_back(std::make_pair(std::make_pair(kk.keys[i], (int)i), vc->ranks[i]));
        for (auto& kv : by) { if (kv.first == MPI_UNDEFINED) continue; std::sort(kv.second.begin(), kv.second.end()); VComm* n = new VComm(); n->id = G->next_comm++; for (auto& e : kv.second) n->ranks.push_back(e.second); n->coll_seq.assign(n->ranks.size(), 0); G->comms.push_back(std::unique_ptr<VComm>(n)); for (auto& e : kv.second) kk.result[e.first.second] = n; } }
    VComm* mine = kk.result[me]; *out = mine ? (MPI_Comm)mine : MPI_COMM_NULL; fold(G->R[tl_rank], mix(0x73706c74, mine ? mine->id : -1)); return MPI_SUCCESS;
}
int MPI_Comm_split(MPI_Comm c, int color, int key, MPI_Comm* out) { return split_like(c, C_SPLIT, color, key, out); }
int MPI_Comm_dup(MPI_Comm c, MPI_Comm* out) { return split_like(c, C_DUP, 0, comm_of(c)->rank_of_world(tl_rank), out); }

int MPI_Barrier(MPI_Comm c) { VComm* vc = comm_of(c); long seq; coll_arrive(vc, C_BARRIER, -1, 0, seq); Pending p; p.kind = OP_COLL; p.comm = vc; p.coll = seq; sched_point(p); fold(G->R[tl_rank], mix(0x62617272, seq)); return MPI_SUCCESS; }
int MPI_Bcast(void* buf, int count, MPI_Datatype t, int root, MPI_Comm c) {
    VComm* vc = comm_of(c); long bytes = (long)count * type_size(t); long seq; Coll& k = coll_arrive(vc, C_BCAST, root, bytes, seq); int me = vc->rank_of_world(tl_rank);
    if (me == root) k.data.assign((char*)buf, (char*)buf + bytes);
    Pending p; p.kind = OP_COLL; p.comm = vc; p.coll = seq; sched_point(p);
    Coll& kk = G->colls[std::make_pair(vc->id, seq)]; if (me != root && bytes > 0) memcpy(buf, kk.data.data(), std::min<long>(bytes, (long)kk.data.size()));
    fold(G->R[tl_rank], mix(mix(0x62637374, seq * 64 + root), hash_bytes(buf, bytes))); return MPI_SUCCESS;
}
static void reduce_into(void* out, const std::vector<std::vector<char> >& contrib, int count, MPI_Datatype t, MPI_Op op) {
    long sz = type_size(t); memcpy(out, contrib[0].data(), sz * count);
    for (size_t r = 1; r < contrib.size(); ++r) for (int i = 0; i < count; ++i) {
        if (t == MPI_DOUBLE) { double* o = (double*)out + i; double v = ((const double*)contrib[r].data())[i]; if (op == MPI_SUM) *o += v; else if (op == MPI_MAX) *o = std::max(*o, v); else if (op == MPI_MIN) *o = std::min(*o, v); else abort(); }
        else if (t == MPI_INT) { int* o = (int*)out + i; int v = ((const int*)contrib[r].data())[i]; if (op == MPI_SUM) *o += v; else if (op == MPI_MAX) *o = std::max(*o, v); else if (op == MPI_MIN) *o = std::min(*o, v); else if (op == MPI_LAND) *o = *o && v; else if (op == MPI_LOR) *o = *o || v; else abort(); }
        else if (t == MPI_CXX_DOUBLE_COMPLEX || t == MPI_C_DOUBLE_COMPLEX) { double* o = (double*)out + 2 * i; const double* v = (const double*)contrib[r].data() + 2 * i; if (op == MPI_SUM) { o[0] += v[0]; o[1] += v[1]; } else abort(); }
        else if (t == MPI_UNSIGNED_LONG || t == MPI_LONG) { long* o = (long*)out + i; long v = ((const long*)contrib[r].data())[i]; if (op == MPI_SUM) *o += v; else if (op == MPI_MAX) *o = std::max(*o, v); else if (op == MPI_MIN) *o = std::min(*o, v); else abort(); }
        else { fprintf(stderr, "vmpi: reduction on unsupported datatype\n"); abort(); }
    }
}
int MPI_Allreduce(const void* in, void* outb, int count, MPI_Datatype t, MPI_Op op, MPI_Comm c) {
    VComm* vc = comm_of(c); long bytes = (long)count * type_size(t); long seq; Coll& k = coll_arrive(vc, C_ALLREDUCE, -1, bytes, seq); int me = vc->rank_of_world(tl_rank);
    const void* src = (in == MPI_IN_PLACE) ? outb : in; k.contrib[me].assign((const char*)src, (const char*)src + bytes);
    Pending p; p.kind = OP_COLL; p.comm = vc; p.coll = seq; sched_point(p);
    Coll& kk = G->colls[std::make_pair(vc->id, seq)]; reduce_into(outb, kk.contrib, count, t, op); fold(G->R[tl_rank], mix(mix(0x616c6c72, seq), hash_bytes(outb, bytes))); return MPI_SUCCESS;
}
int MPI_Reduce(const void* in, void* outb, int count, MPI_Datatype t, MPI_Op op, int root, MPI_Comm c) {
    VComm* vc = comm_of(c); long bytes = (long)count * type_size(t); long seq; Coll& k = coll_arrive(vc, C_REDUCE, root, bytes, seq); int me = vc->rank_of_world(tl_rank);
    const void* src = (in == MPI_IN_PLACE) ? outb : in; k.contrib[me].assign((const char*)src, (const char*)src + bytes);
    Pending p; p.kind = OP_COLL; p.comm = vc; p.coll = seq; sched_point(p);
    Coll& kk = G->colls[std::make_pair(vc->id, seq)]; if (me == root) { reduce_into(outb, kk.contrib, count, t, op); fold(G->R[tl_rank], mix(mix(0x72656475, seq), hash_bytes(outb, bytes))); } else fold(G->R[tl_rank], mix(0x72656476, seq)); return MPI_SUCCESS;
}

int MPI_Send(const void* buf, int count, MPI_Datatype t, int dest, int tag, MPI_Comm c) { do_send(comm_of(c), buf, (long)count * type_size(t), dest, tag, G->cfg.rendezvous); return MPI_SUCCESS; }
int MPI_Ssend(const void* buf, int count, MPI_Datatype t, int dest, int tag, MPI_Comm c) { do_send(comm_of(c), buf, (long)count * type_size(t), dest, tag, true); return MPI_SUCCESS; }
int MPI_Isend(const void* buf, int count, MPI_Datatype t, int dest, int tag, MPI_Comm c, MPI_Request* rq) {   // buffered: completes locally
    do_send(comm_of(c), buf, (long)count * type_size(t), dest, tag, false); VReq* r = new_req(false, comm_of(c), dest, tag, 0, 0); r->complete = true; r->st.MPI_SOURCE = dest; r->st.MPI_TAG = tag; *rq = (MPI_Request)r; return MPI_SUCCESS; }
int MPI_Irecv(void* buf, int count, MPI_Datatype t, int src, int tag, MPI_Comm c, MPI_Request* rq) { VReq* r = new_req(true, comm_of(c), src, tag, buf, (long)count * type_size(t)); post_recv(r); *rq = (MPI_Request)r; return MPI_SUCCESS; }
int MPI_Recv(void* buf, int count, MPI_Datatype t, int src, int tag, MPI_Comm c, MPI_Status* st) {
    VReq* r = new_req(true, comm_of(c), src, tag, buf, (long)count * type_size(t)); post_recv(r); Pending p; p.kind = OP_WAIT; p.comm = r->comm; p.req = r; sched_point(p); finish_req(r, st); return MPI_SUCCESS; }
int MPI_Test(MPI_Request* rq, int* flag, MPI_Status* st) {
    if (*rq == MPI_REQUEST_NULL) { *flag = 1; if (st != MPI_STATUS_IGNORE && st) { memset(st, 0, sizeof(*st)); st->MPI_SOURCE = MPI_ANY_SOURCE; st->MPI_TAG = MPI_ANY_TAG; } return MPI_SUCCESS; }
    VReq* r = (VReq*)*rq; Pending p; p.kind = OP_TEST; p.comm = r->comm; p.req = r; sched_point(p);
    if (r->complete) { *flag = 1; finish_req(r, st); *rq = MPI_REQUEST_NULL; } else *flag = 0;      // a failed poll leaves no trace in the history
    return MPI_SUCCESS;
}
int MPI_Wait(MPI_Request* rq, MPI_Status* st) { if (*rq == MPI_REQUEST_NULL) return MPI_SUCCESS; VReq* r = (VReq*)*rq; Pending p; p.kind = OP_WAIT; p.comm = r->comm; p.req = r; sched_point(p); finish_req(r, st); *rq = MPI_REQUEST_NULL; return MPI_SUCCESS; }
int MPI_Waitall(int n, MPI_Request* rq, MPI_Status* st) { for (int i = 0; i < n; ++i) MPI_Wait(&rq[i], st == MPI_STATUSES_IGNORE ? MPI_STATUS_IGNORE : &st[i]); return MPI_SUCCESS; }
int MPI_Testall(int n, MPI_Request* rq, int* flag, MPI_Status* st) {
    bool all = true; for (int i = 0; i < n; ++i) if (rq[i] != MPI_REQUEST_NULL && !((VReq*)rq[i])->complete) all = false;
    if (n > 0) { VReq* r0 = 0; for (int i = 0; i < n; ++i) if (rq[i] != MPI_REQUEST_NULL && (!r0 || !((VReq*)rq[i])->complete)) r0 = (VReq*)rq[i]; if (r0) { Pending p; p.kind = OP_TEST; p.comm = r0->comm; p.req = r0; sched_point(p); } }
    all = true; for (int i = 0; i < n; ++i) if (rq[i] != MPI_REQUEST_NULL && !((VReq*)rq[i])->complete) all = false;
    *flag = all; if (all) for (int i = 0; i < n; ++i) if (rq[i] != MPI_REQUEST_NULL) { finish_req((VReq*)rq[i], st == MPI_STATUSES_IGNORE ? MPI_STATUS_IGNORE : &st[i]); rq[i] = MPI_REQUEST_NULL; }
    return MPI_SUCCESS;
}
int MPI_Cancel(MPI_Request* rq) {      // an unmatched receive is withdrawn immediately (what Open MPI and MPICH do)
    if (*rq == MPI_REQUEST_NULL) return MPI_SUCCESS; VReq* r = (VReq*)*rq; if (r->is_recv && !r->complete) { auto& pq = G->posted[std::make_pair(r->comm->id, r->comm->rank_of_world(r->owner))]; for (auto it = pq.begin(); it != pq.end(); ++it) if (*it == r) { pq.erase(it); break; } r->cancelled = true; r->complete = true; r->st._cancelled = 1; r->st.MPI_SOURCE = MPI_ANY_SOURCE; r->st.MPI_TAG = MPI_ANY_TAG; }
    fold(G->R[tl_rank], mix(0x63616e63, r->id)); return MPI_SUCCESS; }
int MPI_Test_cancelled(const MPI_Status* st, int* f) { *f = st->_cancelled; return MPI_SUCCESS; }
int MPI_Request_free(MPI_Request* rq) { *rq = MPI_REQUEST_NULL; return MPI_SUCCESS; }
int MPI_Get_count(const MPI_Status* st, MPI_Datatype t, int* n) { *n = (int)(st->_ucount / type_size(t)); return MPI_SUCCESS; }
static void fill_status(MPI_Status* st, VMsg* m) { if (st && st != MPI_STATUS_IGNORE) { st->MPI_SOURCE = m->src; st->MPI_TAG = m->tag; st->MPI_ERROR = MPI_SUCCESS; st->_cancelled = 0; st->_ucount = m->data.size(); } }
int MPI_Probe(int src, int tag, MPI_Comm c, MPI_Status* st) { VComm* vc = comm_of(c); Pending p; p.kind = OP_PROBE; p.comm = vc; p.peer = src; p.tag = tag; sched_point(p); VMsg* m = find_unexpected(vc, vc->rank_of_world(tl_rank), src, tag, false); fill_status(st, m); fold(G->R[tl_rank], mix(0x70726f62, (uint64_t)(m->src + 1) * 65537 + m->tag + m->data.size() * 7)); return MPI_SUCCESS; }
int MPI_Iprobe(int src, int tag, MPI_Comm c, int* flag, MPI_Status* st) { VComm* vc = comm_of(c); Pending p; p.kind = OP_IPROBE; p.comm = vc; p.peer = src; p.tag = tag; sched_point(p); VMsg* m = find_unexpected(vc, vc->rank_of_world(tl_rank), src, tag, false); *flag = m != 0; if (m) { fill_status(st, m); fold(G->R[tl_rank], mix(0x6970726f, (uint64_t)(m->src + 1) * 65537 + m->tag)); } return MPI_SUCCESS; }
int MPI_Mprobe(int src, int tag, MPI_Comm c, MPI_Message* msg, MPI_Status* st) { VComm* vc = comm_of(c); Pending p; p.kind = OP_PROBE; p.comm = vc; p.peer = src; p.tag = tag; sched_point(p); VMsg* m = find_unexpected(vc, vc->rank_of_world(tl_rank), src, tag, true); fill_status(st, m); *msg = (MPI_Message)m; fold(G->R[tl_rank], mix(0x6d70726f, (uint64_t)(m->src + 1) * 65537 + m->tag + m->data.size() * 7)); return MPI_SUCCESS; }
int MPI_Improbe(int src, int tag, MPI_Comm c, int* flag, MPI_Message* msg, MPI_Status* st) { VComm* vc = comm_of(c); Pending p; p.kind = OP_IPROBE; p.comm = vc; p.peer = src; p.tag = tag; sched_point(p); VMsg* m = find_unexpected(vc, vc->rank_of_world(tl_rank), src, tag, true); *flag = m != 0; if (m) { fill_status(st, m); *msg = (MPI_Message)m; fold(G->R[tl_rank], mix(0x696d7072, (uint64_t)(m->src + 1) * 65537 + m->tag)); } return MPI_SUCCESS; }
int MPI_Mrecv(void* buf, int count, MPI_Datatype t, MPI_Message* msg, MPI_Status* st) { VMsg* m = (VMsg*)*msg; long n = std::min<long>((long)count * type_size(t), (long)m->data.size()); if (n > 0) memcpy(buf, m->data.data(), n); m->consumed = true; fill_status(st, m); *msg = MPI_MESSAGE_NULL; fold(G->R[tl_rank], mix(0x6d726376, hash_bytes(buf, n))); return MPI_SUCCESS; }

int MPI_Alloc_mem(MPI_Aint size, MPI_Info, void* base) { *(void**)base = malloc(size ? size : 1); return MPI_SUCCESS; }
int MPI_Free_mem(void* base) { free(base); return MPI_SUCCESS; }
int MPI_Pack_size(int count, MPI_Datatype t, MPI_Comm, int* size) { *size = count * type_size(t); return MPI_SUCCESS; }
int MPI_Pack(const void* in, int count, MPI_Datatype t, void* out, int outsize, int* pos, MPI_Comm) { long n = (long)count * type_size(t); if (*pos + n > outsize) { fprintf(stderr, "vmpi: MPI_Pack overflow\n"); abort(); } memcpy((char*)out + *pos, in, n); *pos += n; return MPI_SUCCESS; }
int MPI_Unpack(const void* in, int insize, int* pos, void* out, int count, MPI_Datatype t, MPI_Comm) { long n = (long)count * type_size(t); if (*pos + n > insize) { fprintf(stderr, "vmpi: MPI_Unpack overflow\n"); abort(); } memcpy(out, (const char*)in + *pos, n); *pos += n; return MPI_SUCCESS; }
int MPI_Type_free(MPI_Datatype* t) { *t = MPI_DATATYPE_NULL; return MPI_SUCCESS; }
int MPI_Op_free(MPI_Op* o) { *o = MPI_OP_NULL; return MPI_SUCCESS; }
int MPI_Group_free(MPI_Group* g) { *g = MPI_GROUP_NULL; return MPI_SUCCESS; }

// ---- virtual OpenMP team: the bodies of the team members run one after another in the configured order -----------------
void GOMP_parallel(void (*fn)(void*), void* data, unsigned nthreads, unsigned) {
    int T = (G ? G->cfg.omp_threads : 1); if (nthreads) T = std::min<int>(T, nthreads); if (T < 1) T = 1; int ord = G ? G->cfg.omp_order : 0;
    if (getenv("VMPI_TRACE")) fprintf(stderr, "  GOMP_parallel: team of %d (requested %u), free=%d\n", T, nthreads, G ? (int)G->cfg.omp_free : -1);
    if (G && G->cfg.omp_free && T > 1) {     // free-running team: real concurrency, visible to ThreadSanitizer through pthread_create/join
        // all members wait at a start gate so that their bodies really overlap in time (an unsynchronised scratch then also corrupts values)
        struct Arg { void (*fn)(void*); void* data; int tid, n, rank; int* gate; }; std::vector<Arg> args(T); std::vector<pthread_t> th(T); int gate = 0;
        for (int k = 0; k < T; ++k) { args[k].fn = fn; args[k].data = data; args[k].tid = k; args[k].n = T; args[k].rank = tl_rank; args[k].gate = &gate; }
        auto body = [](Arg* x) { __atomic_add_fetch(x->gate, 1, __ATOMIC_RELAXED); long spins = 0; while (__atomic_load_n(x->gate, __ATOMIC_RELAXED) < x->n && ++spins < 2000000) { } x->fn(x->data); };
        auto tramp = [](void* a) -> void* { Arg* x = (Arg*)a; tl_rank = x->rank; tl_omp_tid = x->tid; tl_omp_nth = x->n; __atomic_add_fetch(x->gate, 1, __ATOMIC_RELAXED); long spins = 0; while (__atomic_load_n(x->gate, __ATOMIC_RELAXED) < x->n && ++spins < 2000000) { } x->fn(x->data); return 0; };
        (void)body;
        for (int k = 1; k < T; ++k) pthread_create(&th[k], 0, tramp, &args[k]);
        int st = tl_omp_tid, sn = tl_omp_nth; tl_omp_tid = 0; tl_omp_nth = T; __atomic_add_fetch(&gate, 1, __ATOMIC_RELAXED); { long spins = 0; while (__atomic_load_n(&gate, __ATOMIC_RELAXED) < T && ++spins < 2000000) { } } fn(data); tl_omp_tid = st; tl_omp_nth = sn;
        for (int k = 1; k < T; ++k) pthread_join(th[k], 0);
        return;
    }
    int saved_tid = tl_omp_tid, saved_n = tl_omp_nth;
    for (int k = 0; k < T; ++k) { int tid = ord == 0 ? k : ord == 1 ? T - 1 - k : (k + ord - 1) % T; tl_omp_tid = tid; tl_omp_nth = T; fn(data); }
    tl_omp_tid = saved_tid; tl_omp_nth = saved_n;
}
void GOMP_barrier(void) { }
int omp_get_num_threads(void) { return tl_omp_nth; }
int omp_get_thread_num(void) { return tl_omp_tid; }
int omp_get_max_threads(void) { return 1; }     // queried by Eigen only: its internal GEMM parallelisation stays off
int omp_in_parallel(void) { return tl_omp_nth > 1; }
int omp_get_level(void) { return tl_omp_nth > 1; }

} // extern "C"

