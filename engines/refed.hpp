// refed -- the reference model ("boring on purpose").
// Dense Jordan-Wigner matrices on the full 2^M Fock space, ONE dense eigen-decomposition, correlators as
// divided differences of exp(beta x) (Hermite-Genocchi).  Shares no code with pomerol above Eigen's dense
// Hermitian solver; uses no blocks, no sparsity tricks, no term reduction, no resonance case analysis.
// DESIGN.md section 3.
#pragma once
#include <Eigen/Dense>
#include <complex>
#include <vector>
#include <cmath>
#include <algorithm>
#include <stdexcept>
#include <cstdint>

namespace refed {

typedef std::complex<double> cd;
typedef Eigen::Matrix<cd, Eigen::Dynamic, Eigen::Dynamic> Mat;   // column major
typedef Eigen::VectorXd RVec;

inline int popcount_below(unsigned long s, int i) { return __builtin_popcountl(s & ((1ul << i) - 1ul)); }

// c_i |s> = (-1)^{popcount(s & ((1<<i)-1))} |s ^ (1<<i)>  if bit i set.   (convention documented by Operator::actRight)
Mat c_op(int M, int i);
Mat cdag_op(int M, int i);
Mat n_op(int M, int i);
Mat ident(int M);

// product of elementary operators: seq[k] = (creation?, mode)
Mat monomial(int M, const std::vector<std::pair<bool,int> >& seq);

struct Spectrum {
    int D;
    RVec E;        // eigenvalues ascending
    Mat  U;        // columns = eigenvectors in Fock basis
    double E0;     // ground energy
    double beta;
    RVec bw;       // unnormalised Boltzmann factors exp(-beta (E-E0))
    double Z;      // sum of bw
    RVec w;        // weights
};

Spectrum diagonalize(const Mat& H, double beta);
Mat to_eigenbasis(const Spectrum& sp, const Mat& O);
Spectrum spectrum_from(const RVec& E, const Mat& U, double beta);   // use given eigen-data (columns of U) instead of diagonalising

// ---- divided differences of f(x) = exp(beta x) ------------------------------------------------------------
// phi(u) = (e^u - 1)/u, entire.
inline cd phi(cd u) {
    if (std::abs(u) < 1e-3) { cd s = 1.0, t = 1.0; for (int k = 2; k <= 8; ++k) { t *= u / double(k); s += t; } return s; }
    return (std::exp(u) - 1.0) / u;
}
// f[x,y] for any x,y (coinciding allowed): e^{beta x} * beta * phi(beta (y-x)); anchored at the node with larger real part.
inline cd dd2(double beta, cd x, cd y) {
    if (x.real() < y.real()) std::swap(x, y);
    return std::exp(beta * x) * beta * phi(beta * (y - x));
}
// f[x0,x1,x2,x3] where {x0,x2} ("even" class) may coincide, {x1,x3} ("odd" class) may coincide, and nodes of different
// class are separated (their imaginary parts differ by an odd multiple of pi/beta).  Only differences of different-class
// nodes are divided by; same-class pairs go through phi.
inline cd dd3(double beta, cd x0, cd x1, cd x2) {   // f[x0,x1,x2], x0,x2 same class
    return (dd2(beta, x2, x1) - dd2(beta, x0, x2)) / (x1 - x0);
}
inline cd dd4(double beta, cd x0, cd x1, cd x2, cd x3) {
    // f[x0,x2,x1,x3] = ( f[x2,x1,x3] - f[x0,x2,x1] ) / (x3 - x0)
    cd f213 = (dd2(beta, x3, x2) - dd2(beta, x1, x3)) / (x2 - x1);   // f[x1,x3,x2]
    cd f021 = dd3(beta, x0, x1, x2);
    return (f213 - f021) / (x3 - x0);
}

struct Val { cd v; double S; Val() : v(0), S(0) {} };   // value and sum of |contributions| (error scale)

// ---- one-particle Green's function  G_ij(z) = -int <T c_i(tau) c+_j(0)> e^{z tau}  (Lehmann, any complex z off the poles)
struct Lehmann1 {           // list of (residue, pole) -- the reference's own Lehmann terms, un-merged
    std::vector<cd> R; std::vector<double> P; std::vector<int> a, b;
};
Lehmann1 gf_terms(const Spectrum& sp, const Mat& Ci, const Mat& CXj, const std::vector<char>* keep = 0);   // keep: per-eigenstate flag; a term (a,b) is included iff keep[a]||keep[b]
Val gf_eval(const Lehmann1& L, cd z);
// G_ij(tau), 0 <= tau <= beta (tau=0 means 0+, tau=beta means beta-)
Val gf_tau(const Spectrum& sp, const Mat& Ci, const Mat& CXj, double tau);

// ---- bosonic two-operator correlator  chi(W) = int_0^beta <A(tau) B(0)> e^{W tau},  W = i*2 pi n/beta (or any z with e^{beta W}=1)
Val chi2(const Spectrum& sp, const Mat& A, const Mat& B, cd W, const std::vector<char>* keep = 0);
// <A(tau) B(0)>
Val corr_tau(const Spectrum& sp, const Mat& A, const Mat& B, double tau, const std::vector<char>* keep = 0);
cd thermal_avg(const Spectrum& sp, const Mat& Oeig);

// ---- ordered 4-operator simplex integral
//  I = int_{beta>t1>t2>t3>0} <O1(t1) O2(t2) O3(t3) O4(0)> exp(W1 t1 + W2 t2 + W3 t3)
// W1, W1+W2+W3 fermionic (odd), W1+W2 bosonic (even).
struct SparseRows { std::vector<std::vector<std::pair<int,cd> > > rows; };
SparseRows sparsify(const Mat& O, double thr = 1e-13);
Val simplex4(const Spectrum& sp, const SparseRows& O1, const SparseRows& O2, const SparseRows& O3, const Mat& O4,
                    cd W1, cd W2, cd W3, const std::vector<char>* keep = 0);

// chi_ijkl(w1,w2;w3) = int int int <T c_i(t1) c_j(t2) c+_k(t3) c+_l(0)> exp(i w1 t1 + i w2 t2 - i w3 t3)
struct TwoPGFRef {
    const Spectrum* sp; SparseRows A[3]; Mat A4; const std::vector<char>* keep;
    TwoPGFRef(const Spectrum& s, const Mat& Ci, const Mat& Cj, const Mat& CXk, const Mat& CXl, const std::vector<char>* keep_ = 0) : sp(&s), A4(CXl), keep(keep_) {
        A[0] = sparsify(Ci); A[1] = sparsify(Cj); A[2] = sparsify(CXk);
    }
    Val operator()(cd z1, cd z2, cd z3) const {     // z = i w
        static const int perms[6][3] = {{0,1,2},{0,2,1},{1,0,2},{1,2,0},{2,0,1},{2,1,0}};
        static const int sgn[6] = {1,-1,-1,1,1,-1};
        cd W[3] = { z1, z2, -z3 };
        Val r;
        for (int p = 0; p < 6; ++p) {
            Val t = simplex4(*sp, A[perms[p][0]], A[perms[p][1]], A[perms[p][2]], A4, W[perms[p][0]], W[perms[p][1]], W[perms[p][2]], keep);
            r.v += double(sgn[p]) * t.v; r.S += t.S;
        }
        return r;
    }
};

inline cd matsubara_f(double beta, long n) { return cd(0, (2 * n + 1) * M_PI / beta); }
inline cd matsubara_b(double beta, long n) { return cd(0, (2 * n) * M_PI / beta); }

// ---- self validation ------------------------------------------------------------------------------------
// returns empty string if fine, else description
std::string selftest();

} // namespace refed
