// pom -- thin owner of the real pomerol object graph for one model (documented workflow), plus helpers that read
// results back into dense Fock-basis matrices.  Harness TUs are compiled with -fno-access-control.
#pragma once
#include "model.hpp"
#include <memory>
#include <unistd.h>

namespace mx {

enum SymMode { SYM_DEFAULT = 0, SYM_IGNORE = 1, SYM_CUSTOM = 2 };

struct Pipe {
    Shape sh; int M; int D;
    std::unique_ptr<Lattice> L;
    std::unique_ptr<IndexClassification> IC;
    std::unique_ptr<IndexHamiltonian> HS;
    std::unique_ptr<Symmetrizer> Symm;
    std::unique_ptr<StatesClassification> S;
    std::unique_ptr<Hamiltonian> H;
    std::unique_ptr<DensityMatrix> rho;
    std::unique_ptr<FieldOperatorContainer> Ops;
    std::unique_ptr<GFContainer> G;
    boost::mpi::communicator comm;

    Pipe() : M(0), D(0) {}

    // stage 1: lattice + indices
    void make_lattice(const Shape& s, const std::vector<Gen>& hist, bool order_spins = false) {
        sh = s; L.reset(new Lattice()); build_sites(*L, sh);
        for (size_t i = 0; i < hist.size(); ++i) apply_lib(*L, hist[i]);
        IC.reset(new IndexClassification(L->getSiteMap())); IC->prepare(order_spins);
        M = IC->getIndexSize(); D = 1 << M;
    }
    // stage 2: symbolic H + symmetry analysis + states
    void make_states(SymMode mode, const std::vector<Operator>& custom = std::vector<Operator>()) {
        HS.reset(new IndexHamiltonian(L.get(), *IC)); HS->prepare();
        Symm.reset(new Symmetrizer(*IC, *HS));
        if (mode == SYM_CUSTOM) Symm->compute(custom); else Symm->compute(mode == SYM_IGNORE);
        S.reset(new StatesClassification(*IC, *Symm)); S->compute();
    }
    void make_hamiltonian() { H.reset(new Hamiltonian(*IC, *HS, *S)); H->prepare(comm); H->compute(comm); }
    void make_rho(double beta) { rho.reset(new DensityMatrix(*S, *H, beta)); rho->prepare(); rho->compute(); }
    void make_ops() { Ops.reset(new FieldOperatorContainer(*IC, *S, *H)); Ops->prepareAll(); Ops->computeAll(); }
    void make_gf() { G.reset(new GFContainer(*IC, *S, *H, *rho, *Ops)); G->prepareAll(); G->computeAll(); }

    void all(const Shape& s, const std::vector<Gen>& hist, SymMode mode, double beta) {
        make_lattice(s, hist); make_states(mode); make_hamiltonian(); make_rho(beta); make_ops();
    }

    // dense Fock-basis matrix of the library's symbolic Hamiltonian through Operator::actRight
    refed::Mat symbolic_H() const {
        refed::Mat m = refed::Mat::Zero(D, D);
        for (unsigned long s = 0; s < (unsigned long)D; ++s) {
            FockState ket(M, s); std::map<FockState, MelemType> r = HS->actRight(ket);
            for (auto it = r.begin(); it != r.end(); ++it) m(it->first.to_ulong(), s) += cd(it->second);
        }
        return m;
    }
    // global eigenvector matrix assembled from blocks: column index = position in concatenation (block, inner)
    // rows = Fock labels.  Also returns energies in the same order.
    void assemble_eigen(refed::Mat& U, refed::RVec& E, std::vector<std::pair<int,int> >* addr = 0) const {
        U = refed::Mat::Zero(D, D); E.resize(D); int col = 0;
        for (BlockNumber b = 0; b < S->NumberOfBlocks(); b++) {
            const HamiltonianPart& p = H->getPart(b); int n = p.getSize();
            for (int k = 0; k < n; ++k) {
                VectorType v = p.getEigenState(k);
                for (int f = 0; f < n; ++f) U(S->getFockState(b, f).to_ulong(), col) = cd(v(f));
                E(col) = p.getEigenValue(k); if (addr) addr->push_back(std::make_pair((int)b, k)); ++col;
            }
        }
    }
    // offset of block b in the concatenated ordering
    std::vector<int> block_offsets() const { std::vector<int> o; int c = 0; for (BlockNumber b = 0; b < S->NumberOfBlocks(); b++) { o.push_back(c); c += S->getBlockSize(b); } return o; }

    // dense matrix (in the concatenated eigenbasis ordering) of a field operator from its stored sparse parts
    template <class FO> refed::Mat dense_eigen(FO& op, bool colmajor = false) const {
        refed::Mat m = refed::Mat::Zero(D, D); std::vector<int> off = block_offsets();
        const std::vector<FieldOperatorPart*>& parts = const_cast<FO&>(op).getParts();
        for (size_t i = 0; i < parts.size(); ++i) {
            int to = parts[i]->getLeftIndex(), from = parts[i]->getRightIndex();
            if (!colmajor) {
                const RowMajorMatrixType& r = parts[i]->getRowMajorValue();
                for (int k = 0; k < r.outerSize(); ++k) for (RowMajorMatrixType::InnerIterator it(r, k); it; ++it) m(off[to] + it.row(), off[from] + it.col()) += cd(it.value());
            } else {
                const ColMajorMatrixType& r = parts[i]->getColMajorValue();
                for (int k = 0; k < r.outerSize(); ++k) for (ColMajorMatrixType::InnerIterator it(r, k); it; ++it) m(off[to] + it.row(), off[from] + it.col()) += cd(it.value());
            }
        }
        return m;
    }
};

// silence pomerol's chatter: INFO -> std::cout, ERROR -> std::cerr.  Markers and sanitizer output use fd 2 directly.
struct Quiet { std::streambuf *o, *e; Quiet() { o = std::cout.rdbuf(0); e = std::cerr.rdbuf(0); } ~Quiet() { std::cout.rdbuf(o); std::cerr.rdbuf(e); } };

inline void marker(const std::string& s) { std::string t = "@@CASE " + s + "\n"; ssize_t r = write(2, t.data(), t.size()); (void)r; }

} // namespace mx
