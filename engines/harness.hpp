// harness support: argument parsing, result recording (JSON), breadth-first search over model histories.
#pragma once
#include "pom.hpp"
#include <fstream>
#include <chrono>
#include <set>
#include <unordered_set>
#include <unordered_map>

namespace mx {

inline std::string jesc(const std::string& s) { std::string o; for (char c : s) { if (c == '"' || c == '\\') { o += '\\'; o += c; } else if (c == '\n') o += "\\n"; else if ((unsigned char)c < 32) o += ' '; else o += c; } return o; }

struct Args {
    std::string check, tier, out, replay, only, match; int shard, nshards; double deadline; std::vector<std::string> rest;
    Args() : tier("quick"), shard(0), nshards(1), deadline(1e9) {}
    static Args parse(int argc, char** argv) {
        Args a; if (argc > 1) a.check = argv[1];
        for (int i = 2; i < argc; ++i) {
            std::string s = argv[i];
            if (s == "--tier" && i + 1 < argc) a.tier = argv[++i];
            else if (s == "--out" && i + 1 < argc) a.out = argv[++i];
            else if (s == "--replay" && i + 1 < argc) a.replay = argv[++i];
            else if (s == "--only" && i + 1 < argc) a.only = argv[++i];
            else if (s == "--match" && i + 1 < argc) a.match = argv[++i];
            else if (s == "--deadline" && i + 1 < argc) a.deadline = atof(argv[++i]);
            else if (s == "--shard" && i + 1 < argc) { std::string t = argv[++i]; size_t p = t.find('/'); a.shard = atoi(t.substr(0, p).c_str()); a.nshards = atoi(t.substr(p + 1).c_str()); }
            else a.rest.push_back(s);
        }
        return a;
    }
    bool thorough() const { return tier == "thorough"; }
    bool want(const std::string& repr) const { return match.empty() || repr == match; }
};

struct Clock { std::chrono::steady_clock::time_point t0; Clock() : t0(std::chrono::steady_clock::now()) {} double s() const { return std::chrono::duration<double>(std::chrono::steady_clock::now() - t0).count(); } };

struct Violation { std::string key, what, kase; };

struct Recorder {
    std::string check; long states, transitions, evaluations, nontrivial, skipped, traces, enum_states, enum_transitions; bool exhaustive; std::string bound;
    std::vector<Violation> viol; std::set<std::string> viol_keys; std::map<std::string,long> viol_count;
    std::vector<std::string> samples, notes, near; std::map<std::string,long> counters; double max_rel_dev;
    Recorder() : enum_states(0), enum_transitions(0), states(0), transitions(0), evaluations(0), nontrivial(0), skipped(0), traces(0), exhaustive(true), max_rel_dev(0) {}
    // one violation per distinct key is kept with its first (shortest-history) case; all are counted
    void violation(const std::string& key, const std::string& what, const std::string& kase) {
        viol_count[key]++;
        if (viol_keys.insert(key).second) { Violation v; v.key = key; v.what = what; v.kase = kase; viol.push_back(v); }
    }
    void sample(const std::string& s, size_t max = 6) { if (samples.size() < max) samples.push_back(s); }
    void near_miss(const std::string& s) { if (near.size() < 20) near.push_back(s); counters["near_miss"]++; }
    void note(const std::string& s) { if (notes.size() < 50) notes.push_back(s); }
    // compare: dev <= tol passes.  Logs near misses (dev > 0.01*tol).
    bool within(double dev, double tol, const std::string& what_case) {
        if (tol > 0) max_rel_dev = std::max(max_rel_dev, dev / tol);
        if (!(dev <= tol)) return false;
        if (dev > 0.01 * tol) near_miss(what_case);
        return true;
    }
    void write(const std::string& path, double wall) const {
        std::ofstream f(path.c_str()); f.precision(6);
        f << "{\n \"check\": \"" << jesc(check) << "\",\n \"states\": " << states << ",\n \"transitions\": " << transitions
          << ",\n \"evaluations\": " << evaluations << ",\n \"distinct_nontrivial\": " << nontrivial << ",\n \"skipped\": " << skipped
          << ",\n \"traces_validated\": " << traces << ",\n \"enum_states\": " << enum_states << ",\n \"enum_transitions\": " << enum_transitions
          << ",\n \"exhaustive\": " << (exhaustive ? "true" : "false") << ",\n \"bound\": \"" << jesc(bound) << "\",\n \"wall_s\": " << wall
          << ",\n \"max_rel_dev\": " << max_rel_dev << ",\n \"violations\": [";
        for (size_t i = 0; i < viol.size(); ++i) { f << (i ? "," : "") << "\n  {\"key\": \"" << jesc(viol[i].key) << "\", \"what\": \"" << jesc(viol[i].what) << "\", \"case\": \"" << jesc(viol[i].kase) << "\", \"count\": " << viol_count.at(viol[i].key) << "}"; }
        f << "],\n \"samples\": [";
        for (size_t i = 0; i < samples.size(); ++i) f << (i ? "," : "") << "\n  \"" << jesc(samples[i]) << "\"";
        f << "],\n \"near_miss\": [";
        for (size_t i = 0; i < near.size(); ++i) f << (i ? "," : "") << "\n  \"" << jesc(near[i]) << "\"";
        f << "],\n \"notes\": [";
        for (size_t i = 0; i < notes.size(); ++i) f << (i ? "," : "") << "\n  \"" << jesc(notes[i]) << "\"";
        f << "],\n \"counters\": {";
        bool first = true; for (auto& kv : counters) { f << (first ? "" : ",") << "\n  \"" << jesc(kv.first) << "\": " << kv.second; first = false; }
        f << "}\n}\n";
    }
};

// ---- reference Hamiltonian of a lattice: sum of its stored terms read as products of JW matrices (library index order)
refed::Mat lattice_H(const Lattice& L, const IndexClassification& IC);

std::string mat_key(const refed::Mat& H);
std::string mat_key_full(const refed::Mat& H);

struct MState { std::vector<int> hist; int depth; };

struct BFSResult { std::vector<MState> states; long transitions; long duplicates; long rejected; std::vector<long> per_level; };

// BFS over generator histories on a real Lattice; canonical key = Fock matrix of the stored term list.
// A history that the library rejects (exception) is not a state.
BFSResult bfs_models(const Shape& sh, const std::vector<Gen>& A, int maxdepth, size_t cap = 0);

std::string hist_repr(const Shape& sh, const std::vector<Gen>& A, const std::vector<int>& h);
std::vector<Gen> hist_gens(const std::vector<Gen>& A, const std::vector<int>& h);

inline double maxabs(const refed::Mat& m) { return m.size() ? m.cwiseAbs().maxCoeff() : 0.0; }

// a state is "non-trivial" if H is non-diagonal, or has a degenerate level, or breaks N or Sz
bool nontrivial_H(const refed::Mat& H);

} // namespace mx
