// model space: lattice shapes + generator alphabet (real API calls on a real Lattice) + their reference meaning
// (dense Jordan-Wigner matrices of the formulas printed in LatticePresets.h / Lattice.h).   DESIGN.md section 4.
#pragma once
#include <pomerol.h>
#include "refed.hpp"
#include <sstream>
#include <functional>

namespace mx {
using namespace Pomerol;
typedef std::complex<double> cd;

inline MelemType to_melem(cd v) {
#ifdef POMEROL_COMPLEX_MATRIX_ELEMENTS
    return v;
#else
    return v.real();
#endif
}

struct SiteSpec { std::string label; unsigned short orb, spin; };
struct Shape {
    std::string id; std::vector<SiteSpec> sites;
    int modes() const { int m = 0; for (size_t i = 0; i < sites.size(); ++i) m += sites[i].orb * sites[i].spin; return m; }
    const SiteSpec* find(const std::string& l) const { for (size_t i = 0; i < sites.size(); ++i) if (sites[i].label == l) return &sites[i]; return 0; }
};

Shape make_shape(const std::string& id);

// mode lookup used by the reference: (label,orb,spin) -> mode index
typedef std::function<int(const std::string&, int, int)> ModeMap;

// the DOCUMENTED ordering rule (IndexClassification.h): sites in label order; default: orbital-major then spin;
// order_spins: spin-major, then site, then orbital.
ModeMap documented_order(const Shape& sh, bool order_spins);
ModeMap library_order(const IndexClassification& IC);

// ---- generators --------------------------------------------------------------------------------------------
enum Kind { LEVEL, MAGN, COULOMB_S, COULOMB_P3, COULOMB_P4, HOP_ALL, HOP_OO, HOP_OOS, HOP_OOSS, SZSZ, SS, RAW };

struct RawOp { bool creation; std::string label; unsigned short orb, spin; };
struct Gen {
    Kind kind; std::string l1, l2; cd v[4]; int o1, o2, s1, s2;
    std::vector<RawOp> raw;    // RAW: one term; if herm, its Hermitian conjugate is added as a second addTerm call
    bool herm;
    Gen() : kind(LEVEL), o1(0), o2(0), s1(0), s2(0), herm(false) { v[0] = v[1] = v[2] = v[3] = 0; }
    std::string repr() const {
        std::ostringstream o; o.precision(12);
        auto num = [&](cd x) { std::ostringstream q; q.precision(12); if (x.imag() == 0) q << x.real(); else q << "(" << x.real() << "," << x.imag() << ")"; return q.str(); };
        switch (kind) {
        case LEVEL: o << "addLevel(" << l1 << "," << num(v[0]) << ")"; break;
        case MAGN: o << "addMagnetization(" << l1 << "," << num(v[0]) << ")"; break;
        case COULOMB_S: o << "addCoulombS(" << l1 << ",U=" << num(v[0]) << ",eps=" << num(v[1]) << ")"; break;
        case COULOMB_P3: o << "addCoulombP(" << l1 << ",U=" << num(v[0]) << ",J=" << num(v[1]) << ",eps=" << num(v[2]) << ")"; break;
        case COULOMB_P4: o << "addCoulombP(" << l1 << ",U=" << num(v[0]) << ",Up=" << num(v[1]) << ",J=" << num(v[2]) << ",eps=" << num(v[3]) << ")"; break;
        case HOP_ALL: o << "addHopping(" << l1 << "," << l2 << "," << num(v[0]) << ")"; break;
        case HOP_OO: o << "addHopping(" << l1 << "," << l2 << "," << num(v[0]) << "," << o1 << "," << o2 << ")"; break;
        case HOP_OOS: o << "addHopping(" << l1 << "," << l2 << "," << num(v[0]) << "," << o1 << "," << o2 << "," << s1 << ")"; break;
        case HOP_OOSS: o << "addHopping(" << l1 << "," << l2 << "," << num(v[0]) << "," << o1 << "," << o2 << "," << s1 << "," << s2 << ")"; break;
        case SZSZ: o << "addSzSz(" << l1 << "," << l2 << "," << num(v[0]) << ")"; break;
        case SS: o << "addSS(" << l1 << "," << l2 << "," << num(v[0]) << ")"; break;
        case RAW: o << "addTerm(" << num(v[0]) << "*";
            for (auto& r : raw) o << (r.creation ? "c+" : "c") << "[" << r.label << "," << r.orb << "," << r.spin << "]";
            if (herm) o << " + h.c."; o << ")"; break;
        }
        return o.str();
    }
};

Lattice::Term* make_term(const std::vector<RawOp>& raw, MelemType value);

// real API call(s).  May throw (exWrongLabel / exWrongIndices).
void apply_lib(Lattice& L, const Gen& g);

// reference meaning: the operator the DOCUMENTATION says is added, as a dense matrix.
// `magn_half`: factor of the magnetisation preset (documentation: 1/2).
refed::Mat ref_meaning(const Gen& g, const Shape& sh, const ModeMap& mm, int M, double magn_factor = 0.5);

void build_sites(Lattice& L, const Shape& sh);

// ---- alphabet ------------------------------------------------------------------------------------------------
struct AlphabetOpts { std::vector<double> V; bool with_raw; bool with_offsets; bool rich; AlphabetOpts() : with_raw(true), with_offsets(false), rich(true) { V = { -1.0, 0.5, 2.0 }; } };

std::vector<Gen> alphabet(const Shape& sh, const AlphabetOpts& op);

#ifdef POMEROL_COMPLEX_MATRIX_ELEMENTS
void add_complex_gens(const Shape& sh, std::vector<Gen>& A);
#endif

} // namespace mx
