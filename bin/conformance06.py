#!/usr/bin/env python3
"""C06 on the real MPI: run the workflow under mpiexec -np {1,2,3,4}; every rank of every multi-rank run must terminate and
report the same values as the single-rank run (tables marked (root) only on rank 0).  Prints JSON."""
import json, os, subprocess, sys
exe, tier = sys.argv[1], sys.argv[2]
env = dict(os.environ, OMPI_ALLOW_RUN_AS_ROOT="1", OMPI_ALLOW_RUN_AS_ROOT_CONFIRM="1", OMP_NUM_THREADS="1")
def run(np_, cfg, omp=1):
    e = dict(env, OMP_NUM_THREADS=str(omp))
    cmd = ["mpiexec", "--oversubscribe", "-np", str(np_), exe] + [str(x) for x in cfg]
    try: out = subprocess.run(cmd, stdout=subprocess.PIPE, stderr=subprocess.DEVNULL, text=True, env=e, timeout=60).stdout
    except subprocess.TimeoutExpired: return cmd, None
    d = {}; done = set(); thrown = {}
    for l in out.splitlines():
        t = l.split(" ")
        if t[0] == "DUMP": d.setdefault(int(t[1]), {})[t[2]] = [float(x) for x in t[3:]]
        elif t[0] == "DONE": done.add(int(t[1]))
        elif t[0] == "THROW": thrown[int(t[1])] = " ".join(t[2:])
    return cmd, (d, done, thrown)
# (model, phase, comps, clear, split)
cfgs = [(2, 3, 3, 0, 1), (1, 3, 2, 0, 1), (1, 3, 3, 0, 0), (2, 2, 1, 1, 0), (1, 3, 5, 0, 1)]
if tier == "thorough": cfgs += [(3, 3, 3, 0, 1), (3, 2, 2, 0, 0), (2, 3, 2, 1, 1)]
nps = [2, 3, 4] if tier != "thorough" else [2, 3, 4, 5, 8]
res = dict(runs=0, validated=0, violations=[], samples=[])
for cfg in cfgs:
    cmd1, r1 = run(1, cfg)
    if r1 is None or 0 not in r1[1]: res["violations"].append(dict(key="C06:real-mpi:reference-run-failed", what="single-rank real run failed", case=" ".join(cmd1))); continue
    ref = r1[0][0]
    for np_ in nps:
        if sum(1 for v in res["violations"] if ":hang:" in v["key"]) >= 2: break      # two confirmed hangs are enough; each costs a full timeout
        for omp in ([1, 4] if np_ == 2 else [1]):
            cmd, r = run(np_, cfg, omp); res["runs"] += 1; case = "OMP_NUM_THREADS=%d " % omp + " ".join(cmd)
            if r is None: res["violations"].append(dict(key="C06:real-mpi:hang:np=%d:split=%d" % (np_, cfg[4]), what="real mpiexec run did not terminate within 60 s", case=case)); continue
            d, done, thrown = r; bad = None
            for p in range(np_):
                if p in thrown: bad = "rank %d threw: %s" % (p, thrown[p]); break
                if p not in done: bad = "rank %d did not finish" % p; break
                for k, v in d.get(p, {}).items():
                    if k not in ref or len(ref[k]) != len(v): bad = "rank %d: '%s' has %d values, single-rank run has %d" % (p, k, len(v), len(ref.get(k, []))); break
                    if any(abs(x - y) > 1e-9 * (1 + abs(y)) for x, y in zip(v, ref[k])): bad = "rank %d: '%s' differs from the single-rank run" % (p, k); break
                if bad: break
                for k in ref:
                    if "(root)" in k and p != 0: continue
                    if k not in d.get(p, {}): bad = "rank %d lacks '%s'" % (p, k); break
                if bad: break
            if bad: res["violations"].append(dict(key="C06:real-mpi:differs:np=%d:split=%d" % (np_, cfg[4]), what=bad, case=case)); continue
            res["validated"] += 1
            if len(res["samples"]) < 3: res["samples"].append(case + " -> all %d ranks equal the single-rank run (%d quantities)" % (np_, len(ref)))
print(json.dumps(res))
