#!/usr/bin/env python3
"""Driver: rebuild from /repo's working tree, run the engine(s) deciding one property, merge the shards, apply the
known-findings list, write replay files and /verif/evidence/<id>.json, print VIOLATION / KNOWN-FINDING lines.
exit 0 = held on everything explored (known findings excepted), 1 = violation, 2 = engine error.
Standard library only."""
import argparse, json, os, subprocess, sys, time, re, glob, shutil

ROOT = os.path.dirname(os.path.dirname(os.path.abspath(__file__)))
NCPU = int(os.environ.get("VERIF_JOBS", "16"))

ASSUME_COMMON = [
    "harness links libpomerol.a built from /repo's current working tree (bin/build.sh); NDEBUG as in the pinned build",
    "trusted base: Eigen dense SelfAdjointEigenSolver and matrix product, libstdc++, sanitizer runtimes, engines/refed (self-tested on every run)",
    "values outside the stated alphabets and models with more than the stated number of modes are not explored",
]

def sh(cmd, **kw):
    return subprocess.run(cmd, stdout=subprocess.PIPE, stderr=subprocess.STDOUT, text=True, **kw)

def build(variant):
    r = sh([os.path.join(ROOT, "bin", "build.sh"), variant])
    if r.returncode != 0:
        print("ENGINE-ERROR: library build failed for variant", variant); print(r.stdout[-4000:]); sys.exit(2)
    bld = r.stdout.strip().splitlines()[-1]
    src = os.environ.get("POMEROL_SRC", "/repo")
    r = sh(["make", "-C", os.path.join(ROOT, "harness"), "VARIANT=" + variant, "BLD=" + bld, "SRC=" + src, "-j%d" % NCPU])
    if r.returncode != 0:
        print("ENGINE-ERROR: harness build failed for variant", variant); print(r.stdout[-6000:]); sys.exit(2)
    return bld

VG_RE = re.compile(r"^==\d+== ((?:Invalid (?:read|write|free)|Conditional jump or move depends on uninitialised|Use of uninitialised value|Syscall param .* uninitialised|Mismatched free|Source and destination overlap|Argument .* of function .* has a fishy).*)$")

VG_FRAME = re.compile(r"^==\d+==    (?:at|by) 0x[0-9A-Fa-f]+: (.*)$")

_POM = None
def pomerol_files():
    global _POM
    if _POM is None:
        _POM = set(); src = os.environ.get("POMEROL_SRC", "/repo")
        for d in ("include/pomerol", "include/mpi_dispatcher", "src/pomerol", "src/mpi_dispatcher", "include"):
            try: _POM |= set(os.listdir(os.path.join(src, d)))
            except OSError: pass
    return _POM

def parse_log(path):
    """sanitizer reports attributed to the preceding @@CASE marker; returns (reports, last_case)"""
    reports = []; last = None; vg_open = False
    try:
        with open(path, errors="replace") as f:
            for line in f:
                if line.startswith("@@CASE "): last = line[7:].strip()
                elif "ERROR: AddressSanitizer" in line or "runtime error:" in line or "ERROR: LeakSanitizer" in line or "WARNING: ThreadSanitizer" in line:
                    reports.append((last, line.strip()[:300]))
                elif last is not None and VG_RE.match(line):      # valgrind memcheck error header (after the first case marker: MPI start-up noise is not ours)
                    reports.append((last, "memcheck: " + VG_RE.match(line).group(1).strip()[:200])); vg_open = True
                elif vg_open and VG_FRAME.match(line):
                    fr = VG_FRAME.match(line).group(1)
                    m = re.search(r"\(([A-Za-z0-9_]+\.(?:h|hpp|cpp)):(\d+)\)", fr)
                    if m and m.group(1) in pomerol_files(): reports[-1] = (reports[-1][0], reports[-1][1] + " at /repo/" + m.group(1) + ":" + m.group(2)); vg_open = False
                elif vg_open and re.match(r"^==\d+== *$", line): vg_open = False
    except FileNotFoundError:
        pass
    return reports, last

def load_known():
    p = os.path.join(ROOT, "known_findings.json")
    if not os.path.exists(p): return []
    return json.load(open(p)).get("findings", [])

def main():
    ap = argparse.ArgumentParser()
    ap.add_argument("--property", required=True); ap.add_argument("--tier", default=os.environ.get("VERIF_TIER", "quick"))
    ap.add_argument("--match", default=None); ap.add_argument("--deadline", type=float, default=None)
    args = ap.parse_args()
    pid = args.property; tier = args.tier
    seed = int(os.environ.get("VERIF_SEED", "0") or 0)
    sys.path.insert(0, os.path.join(ROOT, "bin"))
    import plan as planmod
    plan = planmod.PLAN.get(pid)
    if plan is None: print("ENGINE-ERROR: no check for", pid); sys.exit(2)
    t0 = time.time()
    runs = list(plan["runs"]) + (list(plan.get("thorough_extra", [])) if tier == "thorough" else [])
    deadline = args.deadline or (plan.get("deadline_thorough", 3000) if tier == "thorough" else plan.get("deadline_quick", 540))
    outdir = os.path.join(ROOT, "build", "out", pid); shutil.rmtree(outdir, ignore_errors=True); os.makedirs(outdir)
    variants = sorted(set(r[0] for r in runs)); blds = {}
    for v in variants: blds[v] = build(v)
    env = dict(os.environ)
    env["ASAN_OPTIONS"] = "quarantine_size_mb=48:exitcode=86:detect_leaks=0:halt_on_error=0:abort_on_error=0:allocator_may_return_null=1:detect_stack_use_after_return=0"
    env["UBSAN_OPTIONS"] = "print_stacktrace=0:halt_on_error=0"
    env["TSAN_OPTIONS"] = "halt_on_error=0:report_signal_unsafe=0"
    env["OMPI_ALLOW_RUN_AS_ROOT"] = "1"; env["OMPI_ALLOW_RUN_AS_ROOT_CONFIRM"] = "1"; env["OMPI_MCA_btl"] = "self,vader"
    env["OMP_NUM_THREADS"] = env.get("OMP_NUM_THREADS", "1")
    jobs = []
    for run in runs:
        (variant, engine, check, shards, extra) = run[:5]; wrap = run[5] if len(run) > 5 else None
        exe = os.path.join(blds[variant], "hx", engine)
        nsh = 1 if args.match else shards
        for s in range(nsh):
            out = os.path.join(outdir, "%s.%s.%d.json" % (variant, check, s)); log = out[:-5] + ".log"
            rot = (s + seed) % nsh   # the seed only rotates which shard index a process takes; the union is seed-independent
            cmd = [exe, check, "--tier", tier, "--shard", "%d/%d" % (rot, nsh), "--out", out, "--deadline", str(deadline)] + list(extra)
            if args.match: cmd += ["--match", args.match]
            if wrap == "memcheck":   # valgrind memcheck on the uninstrumented build: uninitialised-value use, which the sanitizer builds cannot see
                cmd = ["valgrind", "-q", "--error-exitcode=0", "--num-callers=30", "--suppressions=/usr/share/openmpi/openmpi-valgrind.supp",
                       "--suppressions=" + os.path.join(ROOT, "bin", "memcheck.supp")] + cmd
                out2 = out  # same result file
            jobs.append(dict(cmd=cmd, out=out, log=log, variant=variant + ("+memcheck" if wrap else ""), check=check, shard=rot))
    running = []; pending = list(jobs); t_launch = time.time()
    while pending or running:
        while pending and len(running) < NCPU:
            j = pending.pop(0); j["lf"] = open(j["log"], "w"); j["t0"] = time.time()
            # the deadline is global: a shard that starts late (more shards than cores, loaded machine) gets what is left of it (at least 60 s)
            j["deadline"] = max(60.0, deadline - (j["t0"] - t_launch))
            if "--deadline" in j["cmd"]: j["cmd"][j["cmd"].index("--deadline") + 1] = str(int(j["deadline"]))
            j["p"] = subprocess.Popen(j["cmd"], stdout=subprocess.PIPE, stderr=j["lf"], text=True, env=env, cwd=ROOT); running.append(j)
        for j in list(running):
            try:
                j["stdout"], _ = j["p"].communicate(timeout=0.2)
            except subprocess.TimeoutExpired:
                if time.time() - j["t0"] > j.get("deadline", deadline) * 1.5 + 120:
                    j["p"].kill(); j["stdout"], _ = j["p"].communicate(); j["timeout"] = True
                else: continue
            j["rc"] = j["p"].returncode; j["lf"].close(); running.remove(j)
    # ---- merge
    cov = dict(states=0, transitions=0, evaluations=0, distinct_nontrivial=0, traces_validated_against_impl=0, skipped=0)
    samples = []; near = []; notes = []; counters = {}; viols = {}; exhaustive = True; bounds = []; engine_error = False; san_reports = []
    max_rel_dev = 0.0
    for j in jobs:
        reports, last = parse_log(j["log"]); san_reports += [(j["variant"],) + r for r in reports]
        d = None
        if os.path.exists(j["out"]):
            try: d = json.load(open(j["out"]))
            except Exception as e: d = None
        if j.get("timeout"):
            exhaustive = False; notes.append("shard %s/%d of %s killed by the driver watchdog" % (j["shard"], len(jobs), j["check"]))
        if j["rc"] not in (0, 1) and not j.get("timeout"):
            if j["rc"] == 2:
                engine_error = True; print("ENGINE-ERROR in", " ".join(j["cmd"])); print((j.get("stdout") or "")[-2000:]); print(open(j["log"], errors="replace").read()[-2000:])
            else:
                # crash (signal / sanitizer abort): a violation attributed to the last case started
                sig = -j["rc"] if j["rc"] < 0 else j["rc"]
                if j["rc"] == -9:    # SIGKILL comes from outside the process (the kernel's OOM killer): a resource limit of this machine, not a verdict
                    exhaustive = False; notes.append("shard %s of %s was killed from outside (SIGKILL, out of memory?): everything after case '%s' in that shard was not explored" % (j["shard"], j["check"], (last or "?")[:200])); continue
                fam = (last or "?").split(" ", 1)[-1]
                key = "%s:crash:%s" % (j["check"], re.sub(r"[^A-Za-z0-9_+\-\[\]\(\),.:;=*<> ]", "?", fam)[:160])
                viols.setdefault(key, dict(key=key, what="harness process died with status %s while executing this case" % sig, case=fam, count=0, variant=j["variant"], check=j["check"]))
                viols[key]["count"] += 1
                exhaustive = False; notes.append("shard died: everything after case '%s' in that shard was not explored" % fam[:200])
        if d is None:
            if j["rc"] in (0, 1) and not j.get("timeout"):
                engine_error = True; print("ENGINE-ERROR: shard produced no result file although it exited with", j["rc"], ":", " ".join(j["cmd"]))
            continue
        for k in ("states", "transitions", "evaluations", "skipped"): cov[k] += d.get(k, 0)
        cov["distinct_nontrivial"] += d.get("distinct_nontrivial", 0)
        cov["traces_validated_against_impl"] += d.get("traces_validated", 0)
        # states/transitions are enumerated identically by every shard of a BFS check; the harness reports them per shard
        samples += d.get("samples", []); near += d.get("near_miss", []); notes += d.get("notes", [])
        max_rel_dev = max(max_rel_dev, d.get("max_rel_dev", 0))
        for k, v in d.get("counters", {}).items(): counters[k] = counters.get(k, 0) + v
        if not d.get("exhaustive", True): exhaustive = False
        if d.get("bound") and d["bound"] not in bounds: bounds.append(d["bound"])
        for v in d.get("violations", []):
            if plan.get("only_own_violations") and j["check"] != plan["only_own_violations"]:
                notes.append("violation of another property seen while collecting sanitizer reports (reported by its own check): " + v["key"]); continue
            e = viols.setdefault(v["key"], dict(key=v["key"], what=v["what"], case=v["case"], count=0, variant=j["variant"], check=j["check"]))
            e["count"] += v.get("count", 1)
            if len(v["case"]) < len(e["case"]): e["case"] = v["case"]; e["variant"] = j["variant"]
    # BFS checks: every shard enumerates the same state graph (enum_*), and evaluates its own share (states).
    enum_t = {}
    for j in jobs:
        if os.path.exists(j["out"]):
            try: d = json.load(open(j["out"]))
            except Exception: continue
            k = (j["variant"], j["check"]); enum_t[k] = max(enum_t.get(k, 0), d.get("enum_transitions", 0))
    cov["transitions"] += sum(enum_t.values())
    # ---- conformance of the virtual MPI with the real one (C16): real mpiexec runs must satisfy the oracle and land in the explored outcome sets
    conf_validated = 0
    if plan.get("conformance") and not args.match:
        allout = os.path.join(outdir, "explored.outcomes")
        with open(allout, "w") as f:
            for j in jobs:
                q = j["out"] + ".outcomes"
                if os.path.exists(q): f.write(open(q).read())
        if plan.get("conformance_script", "conformance.py") == "conformance.py":
            exe = os.path.join(blds[plan["conformance"]], "hx", "conf16")
            r = subprocess.run([sys.executable, os.path.join(ROOT, "bin", "conformance.py"), exe, allout, tier], stdout=subprocess.PIPE, stderr=subprocess.PIPE, text=True, env=env)
        else:
            exe = os.path.join(blds[plan["conformance"]], "hx", "conf06")
            r = subprocess.run([sys.executable, os.path.join(ROOT, "bin", plan["conformance_script"]), exe, tier], stdout=subprocess.PIPE, stderr=subprocess.PIPE, text=True, env=env)
        try: cr = json.loads(r.stdout.strip().splitlines()[-1])
        except Exception: cr = None
        if cr is None: engine_error = True; print("ENGINE-ERROR: conformance driver failed:", r.stdout[-500:], r.stderr[-500:])
        else:
            conf_validated = cr["validated"]; counters["real_mpi_runs"] = cr["runs"]; counters["real_mpi_runs_validated"] = cr["validated"]; counters["real_mpi_distinct_outcomes"] = cr.get("distinct_real_outcomes", 0); counters["real_mpi_runs_outside_instant_delivery_model"] = cr.get("unvalidated", 0)
            samples += cr["samples"][:2]
            for v in cr["violations"]:
                e = viols.setdefault(v["key"], dict(key=v["key"], what=v["what"], case=v["case"], count=0, variant=plan["conformance"], check=pid)); e["count"] += 1
            for m in cr.get("engine_errors", []):
                engine_error = True; print("ENGINE-ERROR: the virtual MPI does not cover a real behaviour:", m)
    # ---- sanitizer reports: only C17 turns them into violations; others log them
    counters["sanitizer_reports"] = len(san_reports)
    if plan.get("tsan_is_violation"):
        for (variant, case, line) in san_reports:
            if variant != "tsan": continue
            key = "%s:data-race" % pid
            e = viols.setdefault(key, dict(key=key, what=line, case=case or "?", count=0, variant=variant, check=(case or "?").split(" ")[0])); e["count"] += 1
    if plan.get("sanitizer_is_violation"):
        for (variant, case, line) in san_reports:
            m = re.search(r"(AddressSanitizer: [a-z\-]+|runtime error: [^\n]{0,80}|memcheck: [^\n]{0,60})", line); kind = m.group(1) if m else "sanitizer report"
            site = re.search(r"(/repo/[^ :]+:\d+)", line)
            key = "C17:%s:%s" % (kind, site.group(1) if site else "?")
            e = viols.setdefault(key, dict(key=key, what=line, case=case or "?", count=0, variant=variant, check=(case or "?").split(" ")[0]))
            e["count"] += 1
    # ---- known findings
    known = [k for k in load_known() if k.get("property") == pid and k.get("status") == "open"]
    new_viol = []; known_hit = []
    for key, v in sorted(viols.items()):
        kf = next((k for k in known if k["key"] == key), None)
        if kf: known_hit.append((kf, v))
        else: new_viol.append(v)
    rdir = os.path.join(ROOT, "replays", pid) if not args.match else os.path.join(ROOT, "build", "out", "replay_tmp", pid); shutil.rmtree(rdir, ignore_errors=True); os.makedirs(rdir, exist_ok=True)
    for kf, v in known_hit:
        print("KNOWN-FINDING: property=%s %s [%s] (%d cases, e.g. %s)" % (pid, kf.get("what", v["what"]), kf["key"], v["count"], v["case"][:200]))
    for n, v in enumerate(new_viol):
        path = os.path.join(rdir, "%d.json" % n)
        if v["case"].startswith("VXREPLAY "):      # a recorded schedule of the vmpi engine: keep it next to the replay descriptor
            sched = v["case"].split(" ", 2)[1]; dst = os.path.join(rdir, "%d.schedule.json" % n)
            try: shutil.copy(sched, dst)
            except Exception: dst = sched
            json.dump(dict(property=pid, tier=tier, key=v["key"], what=v["what"], case=v["case"], count=v["count"], variant=v["variant"], check=v["check"],
                           argv=[os.path.join(blds[v["variant"]], "hx", "vx"), "replay", dst]), open(path, "w"), indent=1)
            print("VIOLATION property=%s replay=%s" % (pid, path)); print("   key=%s\n   what=%s\n   case=%s" % (v["key"], v["what"][:600], v["case"]))
            continue
        if ":real-mpi:" in v["key"]:       # a run on the real MPI: its command line is the replay
            json.dump(dict(property=pid, tier=tier, key=v["key"], what=v["what"], case=v["case"], count=v["count"], variant=v["variant"], check=v["check"],
                           argv=["bash", "-c", "export OMPI_ALLOW_RUN_AS_ROOT=1 OMPI_ALLOW_RUN_AS_ROOT_CONFIRM=1; cd %s; timeout 600 %s" % (ROOT, v["case"])]), open(path, "w"), indent=1)
            print("VIOLATION property=%s replay=%s" % (pid, path)); print("   key=%s\n   what=%s\n   case=%s" % (v["key"], v["what"][:600], v["case"]))
            continue
        json.dump(dict(property=pid, tier=tier, key=v["key"], what=v["what"], case=v["case"], count=v["count"], variant=v["variant"], check=v["check"],
                       replay_cmd="python3 bin/run_check.py --property %s --tier %s --match '%s'" % (pid, tier, v["case"].split(" ", 1)[-1] if v["case"].startswith(v["check"] + " ") else v["case"])),
                  open(path, "w"), indent=1)
        print("VIOLATION property=%s replay=%s" % (pid, path)); print("   key=%s\n   what=%s\n   case=%s (%d cases with this key)" % (v["key"], v["what"], v["case"], v["count"]))
    wall = time.time() - t0
    # ---- evidence
    uniq = []; [uniq.append(s) for s in samples if s not in uniq]
    cov_out = dict(states=max(cov["states"], 0), transitions=max(cov["transitions"], 0),
                   traces_validated_against_impl=(conf_validated if plan.get("conformance") else (cov["traces_validated_against_impl"] or cov["evaluations"])),
                   evaluations=cov["evaluations"], distinct_nontrivial=cov["distinct_nontrivial"],
                   rule=plan.get("rule", ""), samples=uniq[:12] or ["<none>"], exhaustive=bool(exhaustive and not engine_error),
                   bound_completed=" | ".join(bounds), skipped_states=cov["skipped"], counters=counters, near_miss=near[:20],
                   max_deviation_over_tolerance=max_rel_dev, notes=notes[:40],
                   known_findings_hit=[k["key"] for k, _ in known_hit], new_violation_keys=[v["key"] for v in new_viol],
                   explanation=plan.get("explanation", "every explored history is executed on the real pomerol objects (no separate model): traces_validated_against_impl counts them"))
    ev = dict(property_id=pid, tier=tier, seed=seed, level="model_checking", coverage=cov_out,
              assumptions=ASSUME_COMMON + plan.get("assumptions", []), wall_s=round(wall, 2), violations=len(new_viol))
    os.makedirs(os.path.join(ROOT, "evidence"), exist_ok=True)
    if not args.match:
        json.dump(ev, open(os.path.join(ROOT, "evidence", pid + ".json"), "w"), indent=1)
    print("property=%s tier=%s states=%d transitions=%d evaluations=%d nontrivial=%d violations=%d known=%d sanitizer_reports=%d exhaustive=%s wall=%.1fs" %
          (pid, tier, cov_out["states"], cov_out["transitions"], cov_out["evaluations"], cov_out["distinct_nontrivial"], len(new_viol), len(known_hit), len(san_reports), cov_out["exhaustive"], wall))
    if engine_error: sys.exit(2)
    if new_viol: sys.exit(1)         # e.g. every shard died inside the library on its first case: that is a verdict, not a vacuous run
    if cov_out["states"] < 1 or cov_out["evaluations"] < 1:
        if not args.match: print("ENGINE-ERROR: vacuous run (no states explored)"); sys.exit(2)
    sys.exit(0)

if __name__ == "__main__":
    main()
