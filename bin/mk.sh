#!/bin/bash
# rebuild library (from /repo's working tree) AND harness for the given variants; use this before any manual harness run
cd "$(dirname "$0")/.."
for v in "${@:-san rel}"; do for w in $v; do bin/build.sh $w >/dev/null && make -C harness VARIANT=$w -j16 2>&1 | grep -B2 -A6 " error\|undefined reference" | head -20; done; done
