#!/bin/bash
# run every thorough tier end-to-end, one after the other, logging wall time and the summary line
cd "$(dirname "$0")/.."
out=build/thorough_all.log; : > $out
for p in ${@:-C04 C15 C18 C20 C05 C03 C10 C09 C01 C11 C14 C19 C08 C07 C13 C02 C12 C16 C06 C17}; do
  s=$(date +%s)
  python3 bin/run_check.py --property $p --tier thorough 2>&1 | grep -v conda | grep "^property=\|^VIOLATION\|ENGINE\|   key=" | cut -c1-300 >> $out
  echo "== $p took $(( $(date +%s) - s )) s" >> $out
done
echo ALLDONE >> $out
