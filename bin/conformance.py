#!/usr/bin/env python3
"""C16 conformance of the virtual MPI against the real one: run the dispatcher loops under `mpiexec -np P` with randomised job
durations, evaluate the C16 oracle on what the real ranks did, and require every observed outcome to be one of the outcomes the
exhaustive exploration of the same configuration produced.  Prints JSON on stdout."""
import json, os, subprocess, sys, time
exe, outcomes_file, tier = sys.argv[1], sys.argv[2], sys.argv[3]
explored = {}
for line in open(outcomes_file):
    cfg, sig = line.rstrip("\n").split("\t"); explored.setdefault(cfg, set()).add(sig.strip())
env = dict(os.environ, OMPI_ALLOW_RUN_AS_ROOT="1", OMPI_ALLOW_RUN_AS_ROOT_CONFIRM="1")
configs = [("skel", 2, 3, 1, 0), ("skel", 3, 3, 1, 1), ("skel", 2, 2, 2, 0), ("nomaster", 3, 3, 1, 0), ("skel", 3, 0, 2, 0), ("nomaster", 2, 2, 2, 0)]
seeds = range(1, 9 if tier == "thorough" else 5)
res = dict(runs=0, validated=0, violations=[], engine_errors=[], distinct_real_outcomes=0, samples=[])
seen = set()
for (mode, P, J, R, cx) in configs:
    key = ("skel J=%d P=%d R=%d cx=%d rdv=0" % (J, P, R, cx)) if mode == "skel" else ("nomaster J=%d P=%d R=%d rdv=0" % (J, P, R))
    if key not in explored: continue        # configuration not part of this shard / tier
    for seed in seeds:
        if sum(1 for v in res["violations"] if ":hang:" in v["key"]) >= 2: break
        cmd = ["mpiexec", "--oversubscribe", "-np", str(P), exe, mode, str(J), str(R), str(cx), str(seed)]
        try: out = subprocess.run(cmd, stdout=subprocess.PIPE, stderr=subprocess.DEVNULL, text=True, env=env, timeout=60).stdout
        except subprocess.TimeoutExpired:
            res["violations"].append(dict(key="C16:real-mpi:hang:%s" % mode, what="real mpiexec run did not terminate within 60 s", case=" ".join(cmd))); continue
        res["runs"] += 1
        execs = {}; maps = {}; done = set()
        for l in out.splitlines():
            t = l.split()
            if t and t[0] == "EXEC": execs.setdefault(int(t[1]), {}).setdefault(int(t[2]), []).append(int(t[3]))
            elif t and t[0] == "MAP": maps.setdefault((int(t[1]), int(t[2])), {})[int(t[3])] = int(t[4])
            elif t and t[0] == "DONE": done.add((int(t[1]), int(t[2])))
        bad = None; sig = ""
        for r in range(R):
            for p in range(P):
                if (p, r) not in done: bad = "rank %d did not finish round %d" % (p, r)
            e = execs.get(r, {})
            for j in range(J):
                if len(e.get(j, [])) != 1: bad = "round %d: job %d executed %d times" % (r, j, len(e.get(j, [])))
            if bad: break
            sig += "r%d:%s " % (r, "".join(str(e[j][0]) for j in range(J)))
            for (p, rr), m in maps.items():
                if rr == r and any(m.get(j) != e[j][0] for j in range(J)): bad = "round %d: map on rank %d is not truthful" % (r, p)
            if mode == "skel" and any((p, r) not in maps for p in range(P)) and J > 0: bad = "round %d: a rank returned no map" % r
        if bad: res["violations"].append(dict(key="C16:real-mpi:oracle:%s" % mode, what=bad, case=" ".join(cmd))); continue
        if sig.strip() not in explored[key] and "#delayed-explored" not in explored[key]:
            # only instant delivery was explored for this configuration: the real run may have seen a delivery timing outside that model
            res["unvalidated"] = res.get("unvalidated", 0) + 1
            if len(res["samples"]) < 6: res["samples"].append("UNVALIDATED (configuration explored with instant delivery only): real outcome '%s' of %s" % (sig.strip(), key))
            continue
        if sig.strip() not in explored[key]:
            res["engine_errors"].append("real outcome '%s' of %s was not produced by the exploration (explored: %s)" % (sig.strip(), key, sorted(explored[key])[:6])); continue
        res["validated"] += 1; seen.add((key, sig.strip()))
        if len(res["samples"]) < 4: res["samples"].append("mpiexec -np %d %s J=%d R=%d seed=%d -> %s (in the explored outcome set of '%s')" % (P, mode, J, R, seed, sig.strip(), key))
res["distinct_real_outcomes"] = len(seen)
print(json.dumps(res))
