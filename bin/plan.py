# property -> how it is decided.   runs: (variant, executable under build/<variant>/hx/, check name, shards, extra args)
PLAN = {
    "C04": dict(
        engine="modelx", technique="explicit-state enumeration of preset/term/call-history space on the real Lattice, dense Jordan-Wigner reference as oracle",
        level_text="every preset overload, every raw term pattern/index tuple on <=3 modes and every depth-<=2 composition is executed on the real library and compared entry-by-entry with the documented operator; exhaustive within those alphabets",
        runs=[("san", "hx", "C04", 8, [])], thorough_extra=[("cplx", "hx", "C04", 8, [])],
        rule="every preset overload x site (pair) x argument tuple over {0,-1,0.5,2} on shapes S1..S7; every raw term of 1,2,3,4,6 operators "
             "(all c/c+ patterns x all index tuples, M<=3); BFS depth<=2 over the generator alphabet (term lists add up). "
             "non-trivial = H non-diagonal or with a degenerate level"),
}

NOT_APPLICABLE = {}
