# property -> how it is decided.   runs: (variant, executable under build/<variant>/hx/, check name, shards, extra args)
PLAN = {
    "C04": dict(
        engine="modelx", technique="explicit-state enumeration of preset/term/call-history space on the real Lattice, dense Jordan-Wigner reference as oracle",
        level_text="every preset overload, every raw term pattern/index tuple on <=3 modes and every depth-<=2 composition is executed on the real library and compared entry-by-entry with the documented operator; exhaustive within those alphabets",
        runs=[("san", "hx", "C04", 8, []), ("cplx", "hx", "C04", 8, [])],
        rule="every preset overload x site (pair) x argument tuple over {0,-1,0.5,2} on shapes S1..S7; every raw term of 1,2,3,4,6 operators "
             "(all c/c+ patterns x all index tuples, M<=3); BFS depth<=2 over the generator alphabet (term lists add up). "
             "non-trivial = H non-diagonal or with a degenerate level"),
    "C03": dict(
        engine="modelx", technique="explicit-state BFS over model histories on the real Lattice; every state x partition evaluated against one dense 2^N diagonalisation",
        level_text="every model reachable by <=2-3 generator calls on shapes S1-S7 (M<=4; thorough M<=6) under default / ignored / custom partitions: block spectra, eigenvectors, ground energy and label lookups compared with a dense full-Fock diagonalisation",
        runs=[("san", "hx", "C03", 8, []), ("cplx", "hx", "C03", 8, [])],
        rule="BFS over generator histories (dedup by Fock matrix of the stored terms) x partitions; non-trivial = H non-diagonal or degenerate"),
    "C09": dict(
        engine="modelx", technique="explicit-state BFS over model histories x beta grid on the real pipeline; dense Gibbs-state traces as oracle",
        level_text="every model state (incl. +-1e3 level offsets) x beta in {1e-3,0.5,5,40,1e3} x all index pairs: weights, normalisation, ratios, and every average accessor compared with Tr(rho O) on the full Fock space",
        runs=[("san", "hx", "C09", 16, []), ("cplx", "hx", "C09", 16, [])],
        rule="BFS over generator histories incl. offset generators x 5 inverse temperatures x partitions {default, ignored}"),
    "C10": dict(
        engine="modelx", technique="explicit-state BFS over model histories x partitions; stored sparse operators rotated back with the stored eigenvectors and compared with Jordan-Wigner matrices",
        level_text="every model state x partitions {default, ignored, custom} x every index: c, c+, c+_i c_j computed one by one and through the container, rotated back = JW matrix; adjoint relation; CAR over all blocks; block mapping covers every non-zero element",
        runs=[("san", "hx", "C10", 16, []), ("cplx", "hx", "C10", 16, [])],
        rule="BFS over generator histories x 3 partitions x all indices"),
    "C01": dict(
        engine="modelx", technique="explicit-state BFS over model histories x beta x (i,j) x Matsubara set on the real pipeline (two object paths); dense Lehmann reference with the documented dropped-term allowance",
        level_text="every model state x beta in {0.5,5,40}(+1e-3,1e3) x all (i,j) x n in {-3..2,+-50} x partitions {default, ignored}: stand-alone GreensFunction and GFContainer agree and equal the full-Fock ED value within the documented dropped/merged-term allowance",
        runs=[("san", "hx", "C01", 16, []), ("cplx", "hx", "C01", 16, [])],
        rule="BFS over generator histories x betas x all index pairs x Matsubara numbers; non-trivial = H non-diagonal or degenerate"),
    "C11": dict(
        engine="modelx", technique="explicit-state BFS over model histories x beta x (i,j) x z grid x tau grid; identities + dense G(tau) reference",
        level_text="every model state x beta in {0.5,5,40,1e3} x all (i,j): Hermitian symmetry at on- and off-axis z, 1/z tail at |z|=1e6, sign of Im G_ii, of_tau against the dense definition at 5 tau points incl. both ends, jump and occupancy relations",
        runs=[("san", "hx", "C11", 16, []), ("cplx", "hx", "C11", 16, [])],
        rule="BFS over generator histories x betas x all index pairs x 13 z points x 5 tau points"),
    "C20": dict(
        engine="histx", technique="explicit-state BFS over addSite/addTerm/preset call histories on a real Lattice against a map/list reference model; invariants evaluated in every state",
        level_text="all call sequences up to depth 3 (thorough 4) from 7 start layouts over 63 calls (valid, unknown label, out-of-range orbital/spin, mismatched sites, zero amplitudes): accept/reject decision, unchanged-on-reject, every stored term valid, getSite for known/unknown labels, terms by order, copy independence",
        runs=[("san", "hx", "C20", 8, [])],
        rule="BFS over call histories, dedup by (site map, sorted term dump); non-trivial = history of >= 2 calls"),
    "C05": dict(
        engine="histx", technique="explicit-state BFS over the expression graph of the real Operator class (state key = its Fock matrix); Jordan-Wigner matrices as reference model",
        level_text="expression graph over {*,+,-,scalar*,+scalar,[,],{,}} from c_i,c+_i on 2 and 3 modes to depth 2 (thorough 3), all monomials up to length 6/4 in every factor order, all (==, commutes) pairs against matrix equality, associativity on all depth<=1 triples, N and Sz shortcuts on every Fock state",
        runs=[("san", "hx", "C05", 8, []), ("cplx", "hx", "C05", 8, [])],
        rule="BFS over operator expressions, dedup by Fock matrix; plus flat enumeration of all operator sequences up to the length bound; non-trivial = monomial of length >= 3"),
    "C18": dict(
        engine="modelx", technique="exhaustive enumeration of small lattices (sites x orbital/spin counts x labels x ordering modes) on the real IndexClassification; BFS over models with every relabelling as a differential oracle",
        level_text="all lattices with 1..3 sites, 1..3 orbitals and spins each, distinct labels from a 7(4)-label alphabet, both ordering modes: size, injectivity, both inverse relations, invalid triples unmapped; and for every model state on S1,S2,S4,S4r,S6 every label permutation / rename x both ordering modes must reproduce spectrum, averages and G_ij up to the induced index permutation",
        runs=[("san", "hx", "C18", 16, [])],
        rule="flat enumeration of lattices x modes, plus BFS over model histories x relabellings; non-trivial = heterogeneous sites (bookkeeping) / non-diagonal or degenerate H (relabelling)"),
    "C07": dict(
        engine="modelx", technique="explicit-state BFS over model histories x every analysis (default, ignored, all subsets of size <=2 of a candidate list of Fock-diagonal operators) on the real Symmetrizer/StatesClassification; partition predicates evaluated on dense reference operators",
        level_text="every model state on shapes incl. spinless, heterogeneous and 3-spin sites x {default, ignored, custom subsets of 10 candidates incl. non-linear and non-dyadic ones}: analysis completes, every label in exactly one block and recovered from its address, reference H block-diagonal, every c, c+, c+c maps a block into one block and getBlockMapping lists exactly the non-zero block pairs",
        runs=[("san", "hx", "C07", 16, [])], deadline_quick=900,
        rule="BFS over generator histories x analyses; non-trivial = H non-diagonal or degenerate"),
    "C13": dict(
        engine="histx", technique="explicit-state BFS over TwoParticleGFContainer call histories (prepareAll with 5 index sets, computeAll split/unsplit, on-demand lookups, per-element prepare+compute) with state abstraction; directly constructed TwoParticleGF objects as reference model",
        level_text="all call sequences up to depth 3 (thorough 4) over 39 calls on two 2-mode models: every computed element (stored or alias) returns the value of a directly constructed object on a 64-triple box, and after a bulk computeAll every listed element is computed and evaluable",
        runs=[("san", "hx", "C13", 16, [])], deadline_quick=900,
        rule="BFS over call histories, dedup by abstract container state (keys, alias permutation, element identity classes, statuses); non-trivial = history of >= 2 calls"),
    "C02": dict(
        engine="modelx", technique="explicit-state BFS over model histories x beta x index tuples x frequency box on the real TwoParticleGF (5 evaluation paths); time-ordered simplex integral via confluent divided differences as oracle",
        level_text="every model state on S1-S4 (+S6 at depth 1) x beta {1,10} x index tuples x box [-2,1]^3 (all resonance conditions): on-demand values equal the reference integral, and the tables of compute(false/true,freqs) and computeAll split/unsplit equal the on-demand values entry by entry",
        runs=[("san", "hx", "C02", 16, [])], thorough_extra=[("cplx", "hx", "C02", 16, [])], deadline_quick=900,
        rule="BFS over generator histories x betas x tuples x 64 frequency triples; non-trivial = H non-diagonal or degenerate"),
    "C12": dict(
        engine="modelx", technique="exhaustive enumeration of hopping matrices over a value alphabet on the real pipeline; (z-h)^-1 and Gamma=0 as oracle",
        level_text="all real symmetric hopping matrices over {0,+-1,0.5} for 2 modes, {0,+-1} for 3 modes (thorough: 4 values), spinful 1- and 2-site matrices with spin-flip entries x beta {1,10} x all tuples x box: G equals the free propagator and the irreducible vertex vanishes",
        runs=[("san", "hx", "C12", 16, [])], thorough_extra=[("cplx", "hx", "C12", 16, [])], deadline_quick=900,
        rule="flat enumeration of hopping matrices (incl. zero, block-diagonal, degenerate); non-trivial = non-diagonal or degenerate h"),
    "C15": dict(
        engine="histx", technique="exhaustive enumeration of window sizes x frequency triples on the real MatsubaraContainer4 (injective stub source) and the real Vertex4",
        level_text="window sizes 0..6 (thorough 8) x every triple of a box exceeding the window by 2 on every side with an injective stub source (pure layout), and the real Vertex4 on model states of S1,S2 x all tuples x N=0..2: operator() equals value() exactly and value() is chi - chi0",
        runs=[("san", "hx", "C15", 8, [])],
        rule="flat enumeration window x triple; BFS over generator histories for the real vertex"),
    "C14": dict(
        engine="modelx", technique="explicit-state BFS over model histories x beta x operator quadruples x bosonic Matsubara numbers x 4 subtraction modes x tau grid; bosonic divided-difference reference (static limit = confluent node)",
        level_text="every model state x beta {1,10} x (a,b,c,d) (all for M<=3, representatives incl. S_z-changing operators for M=4) x n in -2..2 x {no subtraction, 3 ways of supplying <A>,<B>} x 5 tau points against int <A(tau)B> e^{iWtau} computed on the full Fock space",
        runs=[("san", "hx", "C14", 16, [])], thorough_extra=[("cplx", "hx", "C14", 16, [])], deadline_quick=900,
        rule="BFS over generator histories x betas x quadruples x frequencies"),
    "C19": dict(
        engine="modelx", technique="explicit-state BFS over model histories x beta x truncation tolerances; reference Lehmann sums restricted to exactly the world-stripes that keep a retained block",
        level_text="every model state x beta {1,10,100} x eps {0,1e-12,1e-6,1e-2}: retention flag per block, truncated G / susceptibility / ensemble average / chi equal the reference with exactly the fully-discarded stripes removed, the 2 eps dim/|Im z| bound for G, and eps=0 changes nothing",
        runs=[("san", "hx", "C19", 16, [])], deadline_quick=900,
        rule="BFS over generator histories x betas x tolerances; counters report how many cases actually discarded blocks",
        assumptions=["the block structure needed to say which stripes are removed is taken from the library's own eigen-data, which C03 validates against the dense diagonalisation"]),
    "C08": dict(
        engine="modelx", technique="explicit-state BFS over model histories; every pair of accepted symmetry analyses compared differentially on all observables",
        level_text="every model state x every pair from {default, ignored, 7 custom lists}: spectrum, sorted weights, occupancies, energy, all G_ij, susceptibilities, ensemble averages and (M<=3) chi agree between the two partitions",
        runs=[("san", "hx", "C08", 16, [])], deadline_quick=900,
        rule="BFS over generator histories x pairs of accepted analyses (unsound partitions are C07's and skipped)"),
    "C16": dict(
        engine="vmpi", technique="stateless exploration with state hashing of ALL interleavings of the real MPIMaster/MPIWorker/mpi_skel over a virtual MPI (every visible MPI call a scheduling point, one forked child per execution); per-execution oracle exactly-once / truthful map / all ranks return / no deadlock",
        level_text="for every configuration J<=3(4) jobs x P<=3(4) ranks x R<=3 rounds x eager/rendezvous sends x equal/distinct complexities, both the boss-works-too skeleton and the dedicated-master loop: every interleaving of rank steps (no deviation bound; state-hashed) - and for the smaller configurations also every interleaving with explicitly delayed message delivery - terminates, runs each job exactly once and returns the same truthful job->rank map on all ranks",
        runs=[("rel", "vx", "C16", 4, [])], deadline_quick=900, deadline_thorough=3300, conformance="rel",
        rule="states = distinct (per-rank observation history, pending operation, in-flight payload) tuples; transitions = enabled alternatives expanded; evaluations = executions run to completion or to an already visited state; non-trivial = distinct job->rank assignments observed in configurations where timing decides the assignment",
        explanation="the explored object is the real dispatcher code; the MPI underneath is a model (engines/vmpi) whose semantics are stated in DESIGN.md section 6. traces_validated_against_impl counts runs of the same dispatcher loops on the REAL MPI (mpiexec -np 2,3, randomised job durations) whose outcome satisfied the oracle and was found in the explored outcome set of the same configuration; a real outcome outside the explored set is an engine error",
        assumptions=["virtual MPI: non-overtaking point-to-point matching, eager or synchronous sends, MPI_Cancel withdraws an unmatched receive immediately, Boost 1.83 request semantics (static libboost_mpi.a)", "failed polls have no side effect (checked by construction: they leave no trace in the rank's history and the rank's code does not branch on them other than by looping)"]),
    "C06": dict(
        engine="vmpi", technique="stateless exploration with state hashing and checkpoint digests of the interleavings of P rank-threads running the real pomerol workflow over a virtual MPI and a virtual OpenMP team; single-rank single-thread run as oracle; deviation bounding where full expansion is too large",
        level_text="P in 1..4 ranks (thorough up to 16 at bound 0) x three models x {distributed diagonalisation, TwoParticleGF::compute, container computeAll split/unsplit, term purging on/off} x component counts that P does and does not divide: all interleavings for the diagonalisation with P<=3, deviation bound 0..2 elsewhere; every execution terminates (no deadlock / collective mismatch / exception) and every rank's eigen-data, G, chi from terms and the tables it is entitled to equal the single-rank run; OpenMP team sizes 2..16 x 3 chunk orders",
        runs=[("rel", "vx", "C06", 4, []), ("tsan", "vx", "C06T", 4, [])], deadline_quick=900, deadline_thorough=3300, conformance="rel", conformance_script="conformance06.py", tsan_is_violation=True,
        rule="as C16; checkpoint digests (over all data members a rank holds) replace histories after each distributed step so that schedules leaving identical data merge; non-trivial = configurations with more than one rank or thread",
        explanation="real pomerol code on every rank; MPI and the OpenMP runtime are models (engines/vmpi). traces_validated_against_impl counts runs of the same per-rank workflow on the REAL Open MPI (mpiexec -np 2,3,4; one with 4 real OpenMP threads) that terminated and in which every rank reported the values of the single-rank run; a real run that hangs or differs is a violation with its command line as replay",
        assumptions=["virtual MPI as for C16; boost::mpi::reduce of complex values is the point-to-point tree of the installed Boost 1.83", "the OpenMP loop body has no synchronisation: team members' chunks are run one after another in 3 orders; data races inside the loop body are looked for separately by running the same bodies on 2/4/16 really concurrent threads of a ThreadSanitizer build (a race that needs a particular timing may still escape that pass)"]),
    "C17": dict(
        engine="modelx", technique="sanitizers (ASan+UBSan, recover mode) as oracle over the exhaustive enumerations of the other checks plus a dedicated sweep of the anchored code (ignored symmetries, empty frequency lists, 1x1 blocks, boundary state labels); every report following a case marker is a violation",
        level_text="every case of the dedicated sweep (also, on small models, under valgrind memcheck on the uninstrumented build) and of the quick enumerations of C01, C02, C05, C10, C13, C14, C15, C18, C20 is executed on a build instrumented with AddressSanitizer and UndefinedBehaviorSanitizer, and the MPI workflow bodies of C06 on the same build under the default schedule; any report is a violation attributed to the case that was executing",
        runs=[("san", "hx", "C17", 16, []), ("san", "hx", "C01", 16, []), ("san", "hx", "C14", 16, []), ("san", "hx", "C02", 16, []), ("san", "hx", "C10", 16, []), ("san", "hx", "C13", 16, []),
              ("san", "hx", "C05", 8, []), ("san", "hx", "C20", 8, []), ("san", "hx", "C18", 8, []), ("san", "hx", "C15", 4, []), ("san", "vx", "C17V", 4, []),
              ("rel", "hx", "C17M", 16, [], "memcheck"), ("rel", "hx", "C15", 4, [], "memcheck")],
        thorough_extra=[("cplx", "hx", "C17", 16, []), ("cplx", "hx", "C01", 16, []), ("cplx", "hx", "C02", 16, [])],
        sanitizer_is_violation=True, only_own_violations="C17", deadline_quick=1200,
        rule="BFS over generator histories x {ignored, default} partitions x all operator pairs / tuples x {no, empty, non-empty} frequency lists; plus the enumerations of the listed checks; non-trivial = H non-diagonal or degenerate",
        assumptions=["an over-read that stays inside initialised memory of the same allocation is invisible to the sanitizers and not claimed", "the valgrind memcheck pass (uninitialised-value use, which the sanitizer builds cannot see) covers the dedicated sweep on models with <= 3 single-particle states and the C15 storage enumeration only; reports before the first case marker (MPI start-up) are ignored"]),
}
NOT_APPLICABLE = {}
