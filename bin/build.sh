#!/bin/bash
# Build libpomerol.a for one variant from the CURRENT working tree of the repository.
#   bin/build.sh <variant>      variants: san | rel | cplx | tsan
# Source tree: $POMEROL_SRC (default /repo). Build tree: /verif/build/<variant>[-<tag of src>]
# Incremental (ninja), serialised by flock. Prints the build dir on the last line of stdout.
set -euo pipefail
variant="${1:?variant}"
SRC="${POMEROL_SRC:-/repo}"
ROOT="$(cd "$(dirname "$0")/.." && pwd)"
tag=""
if [ "$SRC" != "/repo" ]; then tag="-$(echo -n "$SRC" | md5sum | cut -c1-8)"; fi
BLD="$ROOT/build/$variant$tag"
mkdir -p "$BLD"
COMMON="-Wno-error -w -g -DNDEBUG"
case "$variant" in
  san)  FLAGS="$COMMON -O1 -fno-omit-frame-pointer -fsanitize=address,undefined -fsanitize-recover=address,undefined -fno-sanitize=vptr"; EXTRA="" ;;
  rel)  FLAGS="$COMMON -O2"; EXTRA="" ;;
  cplx) FLAGS="$COMMON -O1 -fno-omit-frame-pointer -fsanitize=address,undefined -fsanitize-recover=address,undefined -fno-sanitize=vptr"; EXTRA="-DPOMEROL_COMPLEX_MATRIX_ELEMENTS=ON" ;;
  tsan) FLAGS="$COMMON -O1 -fno-omit-frame-pointer -fsanitize=thread"; EXTRA="" ;;
  *) echo "unknown variant $variant" >&2; exit 2 ;;
esac
(
  flock 9
  if [ ! -f "$BLD/build.ninja" ] || [ "$(cat "$BLD/.flags" 2>/dev/null)" != "$FLAGS $EXTRA $SRC" ]; then
    rm -rf "$BLD/CMakeCache.txt" "$BLD/CMakeFiles"
    cmake -G Ninja -S "$SRC" -B "$BLD" -DCMAKE_BUILD_TYPE=None -DTesting=OFF -DPOMEROL_BUILD_STATIC=ON \
          -DPOMEROL_BUILD_SHARED=OFF -DCMAKE_CXX_FLAGS="$FLAGS" $EXTRA >"$BLD/cmake.log" 2>&1 \
      || { cat "$BLD/cmake.log" >&2; exit 2; }
    echo "$FLAGS $EXTRA $SRC" > "$BLD/.flags"
  fi
  ninja -C "$BLD" pomerol >"$BLD/ninja.log" 2>&1 || { tail -50 "$BLD/ninja.log" >&2; exit 2; }
) 9>"$BLD/.lock"
echo "$BLD"
