#!/bin/bash
# independently confirm a seeded change in its scratch worktree: patch == working diff, builds, ctest 20/20 with the change,
# demo FAILs with it and PASSes without it.  usage: bin/confirm_seed.sh /tmp/seed/Cxx
set -u
W="$1"; cd "$W" || exit 2
export OMPI_ALLOW_RUN_AS_ROOT=1 OMPI_ALLOW_RUN_AS_ROOT_CONFIRM=1
git diff -- src include > /tmp/confirm_$$.diff
if ! diff -q <(grep '^[+-]' /tmp/confirm_$$.diff | grep -v '^+++\|^---') <(grep '^[+-]' deliver/patch.diff | grep -v '^+++\|^---') >/dev/null; then echo "RESULT working tree differs from deliver/patch.diff"; fi
cmake --build _build -j8 >/dev/null 2>&1 || { echo "RESULT build failed with change"; exit 1; }
ct=$(ctest --test-dir _build -j8 --timeout 900 2>&1 | grep "tests passed\|tests failed" | head -1)
echo "ctest with change: $ct"
if [ -f deliver/run.sh ]; then bash deliver/run.sh >/tmp/confirm_with_$$.log 2>&1; rc1=$?; else rc1=99; fi
echo "demo with change: exit $rc1 ($(grep -c . /tmp/confirm_with_$$.log) lines; last: $(tail -1 /tmp/confirm_with_$$.log | cut -c1-120))"
git apply -R deliver/patch.diff || { echo "RESULT cannot reverse patch"; exit 1; }
cmake --build _build -j8 >/dev/null 2>&1
bash deliver/run.sh >/tmp/confirm_without_$$.log 2>&1; rc0=$?
echo "demo without change: exit $rc0 (last: $(tail -1 /tmp/confirm_without_$$.log | cut -c1-120))"
git apply deliver/patch.diff; cmake --build _build -j8 >/dev/null 2>&1
if echo "$ct" | grep -q "100% tests passed" && [ $rc1 -ne 0 ] && [ $rc0 -eq 0 ]; then echo "RESULT CONFIRMED"; else echo "RESULT NOT-CONFIRMED"; fi
rm -f /tmp/confirm_*_$$.log /tmp/confirm_$$.diff
