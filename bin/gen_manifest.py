#!/usr/bin/env python3
"""writes /verif/MANIFEST.json from bin/plan.py (so the two cannot drift)"""
import json, os, sys
ROOT = os.path.dirname(os.path.dirname(os.path.abspath(__file__)))
sys.path.insert(0, os.path.join(ROOT, "bin"))
import plan
props = [json.loads(l) for l in open(os.path.join(ROOT, "properties.jsonl"))]
checks = []; na = []
for p in props:
    pid = p["id"]; pl = plan.PLAN.get(pid)
    if pl is None or pl.get("disabled"):
        na.append(dict(property_id=pid, reason=plan.NOT_APPLICABLE.get(pid, "check not built yet (work in progress); no claim is made")))
        continue
    checks.append(dict(
        property_id=pid,
        quick_cmd="python3 bin/run_check.py --property %s --tier quick" % pid,
        thorough_cmd="python3 bin/run_check.py --property %s --tier thorough" % pid,
        evidence_file="evidence/%s.json" % pid,
        replay_cmd_template="python3 bin/replay.py {path}",
        engine=pl.get("engine", "modelx"),
        level_claimed=dict(category="model_checking", text=pl["level_text"], design_ref=pl.get("design_ref", "DESIGN.md section 7")),
        level_note=pl.get("level_note", "bounded exhaustive: nothing outside the stated alphabets/bounds is claimed; trusted base: Eigen dense solver, refed reference (self-tested), sanitizer runtimes"),
        technique=pl["technique"]))
m = dict(version=1, setup_cmd="bin/setup.sh",
         hooks=dict(guard="POMEROL_VERIF", enable="no source hooks exist: checks link libpomerol.a built from /repo by bin/build.sh; MPI/OpenMP are replaced by link-time interposition in the harness",
                    baseline_off_cmd="cmake --build /repo/_build -j16 && ctest --test-dir /repo/_build -j8 --timeout 900", source_commits=[], add_only=True),
         engines=[dict(name="refed", path="engines/refed.hpp", serves_properties=[c["property_id"] for c in checks], kind_free_text="dense full-Fock reference (oracle)"),
                  dict(name="modelx/histx", path="harness/", serves_properties=[c["property_id"] for c in checks if plan.PLAN[c["property_id"]].get("engine", "modelx") != "vmpi"], kind_free_text="explicit-state BFS over model / call histories on the real objects"),
                  dict(name="vmpi", path="engines/vmpi/", serves_properties=[c["property_id"] for c in checks if plan.PLAN[c["property_id"]].get("engine") == "vmpi"], kind_free_text="virtual MPI/OpenMP runtime + stateless schedule explorer")],
         checks=checks, not_applicable=na,
         notes="see DESIGN.md; known_findings.json lists recorded defects; seeded/ holds confirmed property-breaking changes used to test the checks")
json.dump(m, open(os.path.join(ROOT, "MANIFEST.json"), "w"), indent=1)
print("MANIFEST.json: %d checks, %d not_applicable" % (len(checks), len(na)))
