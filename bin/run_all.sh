#!/bin/bash
# run every registered check's quick (or $1) tier, one after the other; summary lines only
tier="${1:-quick}"
cd "$(dirname "$0")/.."
for p in $(python3 -c "import json; print(' '.join(c['property_id'] for c in json.load(open('MANIFEST.json'))['checks']))" 2>/dev/null | tail -1); do
  /usr/bin/time -f "%e s" python3 bin/run_check.py --property $p --tier $tier 2>&1 | grep -v conda | grep "^property=\|^VIOLATION\|ENGINE\|KNOWN\| s$" | cut -c1-260
done
