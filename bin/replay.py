#!/usr/bin/env python3
"""re-execute exactly the case recorded in a replay file, without the enumeration around it"""
import json, os, subprocess, sys
ROOT = os.path.dirname(os.path.dirname(os.path.abspath(__file__)))
r = json.load(open(sys.argv[1]))
if "argv" in r:      # vmpi schedule replays carry their own command
    sys.exit(subprocess.call(r["argv"], cwd=ROOT))
case = r["case"]
if case.startswith(r["check"] + " "): case = case[len(r["check"]) + 1:]
print("replaying property=%s key=%s\n case=%s" % (r["property"], r["key"], case))
sys.exit(subprocess.call([sys.executable, os.path.join(ROOT, "bin", "run_check.py"), "--property", r["property"], "--tier", r.get("tier", "quick"), "--match", case], cwd=ROOT))
