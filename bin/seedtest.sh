#!/bin/bash
# apply a seeded change to /repo, run the given checks (quick), and ALWAYS undo the change afterwards
#   bin/seedtest.sh <patch.diff> <property> [<property> ...]
set -u
patch="$1"; shift
cd /repo || exit 2
if ! git diff --quiet; then echo "seedtest: /repo has uncommitted changes, refusing" >&2; exit 2; fi
git apply "$patch" || { echo "seedtest: patch does not apply" >&2; exit 2; }
trap 'git -C /repo checkout -- . ; echo "[seedtest] /repo restored: $(git -C /repo status --short | grep -v _build | wc -l) modified files"; for v in san rel cplx tsan; do [ -d /verif/build/$v ] && /verif/bin/build.sh $v >/dev/null 2>&1; done; echo "[seedtest] libraries rebuilt from the restored tree"' EXIT
cd /verif
for p in "$@"; do
  python3 bin/run_check.py --property "$p" --tier "${SEED_TIER:-quick}" 2>&1 | grep -v conda | grep "^property=\|^VIOLATION\|ENGINE\|   key=\|   what=" | cut -c1-330
done
