#!/bin/bash
# Build the framework from files on disk (offline): all library variants + harness executables, then the oracle self-test.
set -euo pipefail
ROOT="$(cd "$(dirname "$0")/.." && pwd)"
cd "$ROOT"
J="${VERIF_JOBS:-16}"
pids=()
for v in san rel cplx; do
  ( bin/build.sh "$v" >/dev/null ) &
  pids+=($!)
done
rc=0; for p in "${pids[@]}"; do wait "$p" || rc=1; done
[ $rc -eq 0 ] || { echo "setup: library build failed" >&2; exit 2; }
for v in san rel cplx; do
  make -C harness VARIANT="$v" BLD="$ROOT/build/$v" -j"$J" >/dev/null 2>"$ROOT/build/$v/harness.err" || { tail -30 "$ROOT/build/$v/harness.err" >&2; exit 2; }
done
export ASAN_OPTIONS=detect_leaks=0 OMPI_ALLOW_RUN_AS_ROOT=1 OMPI_ALLOW_RUN_AS_ROOT_CONFIRM=1
"$ROOT/build/san/hx/hx" selftest
echo "setup OK"
