#!/bin/bash
# rebuild the repository's own build tree and run its 20-test baseline (the command of /root/.vp/BASELINE.json)
set -euo pipefail
export OMPI_ALLOW_RUN_AS_ROOT=1 OMPI_ALLOW_RUN_AS_ROOT_CONFIRM=1
cmake --build /repo/_build -j16 >/tmp/baseline_build.log 2>&1 || { tail -30 /tmp/baseline_build.log; exit 2; }
ctest --test-dir /repo/_build -j8 --timeout 900 2>&1 | tail -8
